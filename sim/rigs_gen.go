package sim

import (
	"fmt"
	"os"
	"strings"

	"github.com/zilliztech/milvus-cdc/core/pb"
)

// ------------------------------------------------------------------ rig S (whole server) script

type SKnobs struct {
	Backend     string `json:"backend"` // etcd | mysql
	MaxTaskNum  int    `json:"max_task_num"`
	RetryTimes  int    `json:"retry_times"`
	PackCount   int    `json:"pack_count"`
	PackTimerMs int    `json:"pack_timer_ms"`
	// Recover (C05 / C06): after the fault-free drain every task that is Paused is resumed by the operator and the run is
	// drained again: everything of its replication domain has to arrive (a failure, lifted, loses nothing)
	Recover    bool `json:"recover,omitempty"`
	PackMemKB  int  `json:"pack_mem_kb,omitempty"` // global memory budget of the write batchers in KB (0 = the shipped 4 GB)
	TTMs       int  `json:"tt_ms"`
	ChannelNum int  `json:"channel_num"`
	MaxSteps   int  `json:"max_steps"`
	ClockW     int  `json:"clock_w"`
	LogDebug   bool `json:"log_debug"`
	Crashes    int  `json:"crashes"`
	RangeMode  int  `json:"range_mode"`
	PChMode    int  `json:"pch_mode,omitempty"`  // numbering of the source pchannels, see srcPCh
	EventCap   int  `json:"event_cap,omitempty"` // capacity of the reader's API event queue (0 = the shipped 10), hook H18
	DoneMode   int  `json:"done_mode,omitempty"` // 1: loops that find their context cancelled always stop at once; 0: seeded coin
}

// HEvent is one step of the source Milvus: a catalog write, published messages, ticks, or an op message.
type HEvent struct {
	K     string    `json:"k"` // cat | mq | tick | op
	Cat   *CatWrite `json:"cat,omitempty"`
	PCh   string    `json:"pch,omitempty"`
	Es    []*REntry `json:"es,omitempty"`
	Ts    uint64    `json:"ts,omitempty"`
	Op    *WDEvent  `json:"op,omitempty"`
	Pre   bool      `json:"pre,omitempty"`
	Fresh bool      `json:"fresh,omitempty"` // cat write of a new collection: its start positions are the current ends of its pchannels
	// AfterOps: published only after this many operator requests have been answered and the service has come to rest
	AfterOps int `json:"after_ops,omitempty"`
}

type SSpec struct {
	Target   int               `json:"target"` // index of the downstream Milvus
	DB       string            `json:"db"`     // "" = collection_infos form (default database); otherwise db_collections[db]
	Coll     string            `json:"coll"`
	UserRole bool              `json:"user_role,omitempty"`
	MapDB    string            `json:"map_db,omitempty"`
	MapColl  map[string]string `json:"map_coll,omitempty"`
	NoAuto   bool              `json:"no_auto,omitempty"`
	Creds    string            `json:"creds,omitempty"`     // token | userpass | none
	UseStart bool              `json:"use_start,omitempty"` // replicate from the collection's start position
	BadPos   string            `json:"bad_pos,omitempty"`
	// Stray (C18): the request also carries credentials of the other target kind: "sasl" a Milvus-target request with a
	// left-over Kafka SASL block (no address), "milvus" a Kafka-target request with a stray Milvus user / password / token
	// (no address), "both" two complete targets (must be rejected)
	Stray    string `json:"stray,omitempty"`
	Kafka    bool   `json:"kafka,omitempty"`      // Kafka downstream (producer stubbed); Target is ignored
	MapSrcDB string `json:"map_src_db,omitempty"` // source database of the name mapping when it is not the specification's own (an invalid request)
}

// tgt is the index of the simulated downstream Milvus, -1 for a Kafka downstream.
func (sp *SSpec) tgt() int {
	if sp.Kafka {
		return -1
	}
	return sp.Target % 2
}

type SOp struct {
	K      string `json:"k"` // create pause resume delete get list position raw
	Task   string `json:"task,omitempty"`
	Spec   *SSpec `json:"spec,omitempty"`
	Body   string `json:"body,omitempty"`
	Method string `json:"method,omitempty"`
	// MustReject: a semantically invalid request (C19): any answer but an error response is a violation
	MustReject bool `json:"must_reject,omitempty"`
	// Gate: the request is issued only in a named window of the run (or once the history is used up):
	// "pdrop_window" = a partition's drop message has been read on every shard in this incarnation and no drop request
	// for it has reached the downstream yet
	Gate string `json:"gate,omitempty"`
	// AfterHist: the request is issued only once this many further events of the source history have been published since
	// the previous request was answered (or the history is used up): a task that stays paused for a while
	AfterHist int `json:"after_hist,omitempty"`
}

type SColl struct {
	ID    int64            `json:"id"`
	DBID  int64            `json:"dbid"`
	DB    string           `json:"db"`
	Name  string           `json:"name"`
	Shard int              `json:"shard"`
	Ts    uint64           `json:"ts"`
	Parts map[string]int64 `json:"parts"`
	// Down: the collection exists at the downstreams before the run (the user created it there): the service sends no
	// create request for it and stores no start position; its streams start at the end of the source channels
	Down bool `json:"down,omitempty"`
}

type SScript struct {
	Knobs   SKnobs         `json:"knobs"`
	History []HEvent       `json:"history"`
	Colls   []*SColl       `json:"colls"`
	Ops     []SOp          `json:"ops"`
	Faults  map[string]int `json:"faults"`
	Targets []string       `json:"targets"`
	// MsgFaults: running numbers of the drop-message store calls that fail (these calls are not parked, see RigS.gate)
	MsgFaults []int `json:"msg_faults,omitempty"`
	// ConnFaults: running numbers of the message-queue connection checks that fail (not parked either)
	ConnFaults []int `json:"conn_faults,omitempty"`
	// StateFaults: how many state writes that the service makes on its own (a pause after a failure: no request on that task
	// in flight) are refused by the store - the failing task must stop all the same
	StateFaults int `json:"state_faults,omitempty"`
	// Directed: a directed constellation the scenario was built around ("" = none)
	Directed string `json:"directed,omitempty"`
}

const replicateChan = "by-dev-replicate-msg"

// Source pchannel of shard i. The numbering is a knob of the scenario (SKnobs.PChMode): real clusters have sixteen DML
// channels, so names that are prefixes of one another (dml_1, dml_10) do occur together.
var pchNumbering = [][]int{{0, 1}, {1, 10}, {10, 1}}
var pchMode = 0

func srcPCh(i int) string {
	if i < len(pchNumbering[pchMode]) {
		return fmt.Sprintf("by-dev-rootcoord-dml_%d", pchNumbering[pchMode][i])
	}
	return fmt.Sprintf("by-dev-rootcoord-dml_%d", i)
}

// shardOfSrcPCh is the inverse of srcPCh, -1 for a foreign name.
func shardOfSrcPCh(p string) int {
	for i := 0; i < 16; i++ {
		if srcPCh(i) == p {
			return i
		}
	}
	return -1
}

// GenS generates a whole-server scenario for one property.
func GenS(rng *Rng, prop, variant, tier string) *SScript {
	sc := &SScript{Faults: map[string]int{}, Targets: []string{"http://tgt-a:19530", "http://tgt-b:19530"}}
	k := &sc.Knobs
	k.Backend = variant
	if k.Backend == "" {
		k.Backend = Pick(rng, []string{"etcd", "mysql"})
	}
	k.MaxTaskNum = Pick(rng, []int{2, 3, 10})
	k.RetryTimes = rng.Range(3, 6)
	k.PackCount = Pick(rng, []int{1, 2, 3, 10})
	k.PackTimerMs = Pick(rng, []int{50, 1000, 5000})
	k.TTMs = Pick(rng, []int{50, 500})
	k.ChannelNum = 2
	k.MaxSteps = 700
	k.ClockW = Pick(rng, []int{1, 2, 4})
	k.RangeMode = rng.Intn(3)
	k.LogDebug = prop == "C18"
	if prop == "C04" && rng.Pct(40) {
		k.EventCap = rng.Range(1, 2)
	}
	// directed constellation (C04): two tasks on one downstream, an event queue of one, a partition drop right behind two
	// partition creations, and an operator pause that lands while the drop barrier is complete but its request is not out
	pq := prop == "C04" && rng.Pct(15)
	if pq {
		k.EventCap = 1
		sc.Directed = "pdrop_queue"
	}
	// directed constellation (C05 / C06): two tasks on one downstream, and the message queue refuses a connection when the
	// second task opens a collection that exists at its start; see the operator script below
	cf := (prop == "C05" || prop == "C06") && rng.Pct(8)
	if cf {
		sc.Directed = "connfail_resume"
	}
	if (prop == "C05" || prop == "C06") && rng.Pct(30) {
		k.PChMode = rng.Range(1, 2)
	}
	pchMode = k.PChMode

	ts := int64(2000)
	logical := int64(0)
	nextTs := func() uint64 { ts += int64(rng.Range(1, 40)); logical = int64(rng.Intn(3)); return hts(ts, logical) }
	id := int64(5000)
	newID := func() int64 { id += int64(rng.Range(1, 6)); return id }
	tag := int64(0)
	row := int64(700000)
	add := func(e HEvent, pre bool) { e.Pre = pre; sc.History = append(sc.History, e) }
	cat := func(w CatWrite, pre bool) { w.Pre = pre; add(HEvent{K: "cat", Cat: &w}, pre) }

	light := prop == "C10" || prop == "C19" || prop == "C18"
	cat(CatWrite{What: "db", DB: 1, DBN: "default", Ts: nextTs()}, true)
	if rng.Pct(50) {
		cat(CatWrite{What: "db", DB: 7, DBN: "dbx", Ts: nextTs()}, true)
	}
	type lp struct {
		id    int64
		name  string
		alive bool
	}
	type lc struct {
		c     *SColl
		alive bool
		parts []*lp // non-default partitions
	}
	withParts := prop == "C04" // non-default partitions created and dropped during the run
	var lives []*lc
	createColl := func(name string, db int64, dbn string, pre bool) *lc {
		c := &SColl{ID: newID(), DBID: db, DB: dbn, Name: name, Shard: rng.Range(1, 2), Ts: nextTs(), Parts: map[string]int64{}}
		sc.Colls = append(sc.Colls, c)
		cat(CatWrite{What: "fields", Coll: c.ID}, pre)
		cat(CatWrite{What: "coll", DB: db, Coll: c.ID, Name: name, State: int(pb.CollectionState_CollectionCreating), Ts: c.Ts, Shard: c.Shard}, pre)
		cat(CatWrite{What: "part", Coll: c.ID, Part: newID(), PName: "_default", State: int(pb.PartitionState_PartitionCreated), Ts: c.Ts}, pre)
		w := CatWrite{What: "coll", DB: db, Coll: c.ID, Name: name, State: int(pb.CollectionState_CollectionCreated), Ts: c.Ts, Shard: c.Shard}
		w.Pre = pre
		add(HEvent{K: "cat", Cat: &w, Fresh: true}, pre)
		l := &lc{c: c, alive: true}
		lives = append(lives, l)
		return l
	}
	tick := func(pre bool) {
		add(HEvent{K: "tick", Ts: nextTs()}, pre)
	}
	createPart := func(l *lc, pre bool) {
		pt := &lp{id: newID(), name: fmt.Sprintf("p%d", len(l.parts)+1), alive: true}
		l.parts = append(l.parts, pt)
		l.c.Parts[pt.name] = pt.id
		t := nextTs()
		tag++
		cat(CatWrite{What: "part", Coll: l.c.ID, Part: pt.id, PName: pt.name, State: int(pb.PartitionState_PartitionCreating), Ts: t}, pre)
		for s := 0; s < l.c.Shard; s++ {
			add(HEvent{K: "mq", PCh: srcPCh(s), Es: []*REntry{{Ts: t, Kind: "createp", Coll: l.c.ID, Part: pt.id, PartName: pt.name, Tag: tag}}}, pre)
		}
		cat(CatWrite{What: "part", Coll: l.c.ID, Part: pt.id, PName: pt.name, State: int(pb.PartitionState_PartitionCreated), Ts: t}, pre)
	}
	dropPart := func(l *lc, pt *lp) {
		pt.alive = false
		t := nextTs()
		tag++
		for s := 0; s < l.c.Shard; s++ {
			add(HEvent{K: "mq", PCh: srcPCh(s), Es: []*REntry{{Ts: t, Kind: "dropp", Coll: l.c.ID, Part: pt.id, PartName: pt.name, Tag: tag}}}, false)
		}
		cat(CatWrite{What: "part", Coll: l.c.ID, Part: pt.id, PName: pt.name, State: int(pb.PartitionState_PartitionDropping), Ts: t}, false)
	}
	data := func(l *lc, pre bool) {
		shard := rng.Intn(l.c.Shard)
		kind := "ins"
		if rng.Pct(25) {
			kind = "del"
		}
		tag++
		e := &REntry{Ts: nextTs(), Kind: kind, Coll: l.c.ID, Shard: shard, PartName: "_default", Tag: tag}
		var liveParts []*lp
		for _, pt := range l.parts {
			if pt.alive {
				liveParts = append(liveParts, pt)
			}
		}
		if len(liveParts) > 0 && rng.Pct(50) {
			pt := Pick(rng, liveParts)
			e.PartName, e.Part = pt.name, pt.id
		}
		for i := 0; i < rng.Range(1, 3); i++ {
			row++
			e.Rows = append(e.Rows, row)
		}
		add(HEvent{K: "mq", PCh: srcPCh(shard), Es: []*REntry{e}}, pre)
	}
	names := []string{"c1", "c2", "c3"}
	nPre := rng.Range(1, 2)
	if light {
		nPre = rng.Range(0, 1)
	}
	if pq || cf {
		nPre = 2
	}
	for i := 0; i < nPre; i++ {
		l := createColl(names[i], 1, "default", true)
		if withParts && (rng.Pct(40) || (pq && i == 0)) {
			createPart(l, true)
		} else if (prop == "C05" || prop == "C06") && !cf && rng.Pct(35) {
			// collections that exist downstream before the task (SColl.Down): NOT enabled. With them the pinned tree shows a
			// family of losses around the first checkpoint of such a collection (nothing is persisted for it until the first
			// acknowledged pack is recorded) that was only partly triaged (DESIGN.md section 9, C05-7); the classes
			// `_no_checkpoint_yet_for_preexisting_collection` / `_after_start_without_checkpoint` are in place for them
			l.c.Down = os.Getenv("VERIF_DOWN_COLLECTIONS") != ""
		}
		if !light {
			for j := 0; j < rng.Range(0, 3); j++ {
				data(l, true)
			}
		}
	}
	tick(true)
	if !light {
		rounds := rng.Range(4, 10)
		if tier == "thorough" {
			rounds = rng.Range(4, 16)
		}
		pqRound := -1
		if pq {
			pqRound = rng.Range(1, rounds-2)
		}
		for r := 0; r < rounds; r++ {
			if r == pqRound {
				first := len(sc.History)
				createPart(lives[1], false)
				createPart(lives[1], false)
				createPart(lives[0], false)
				dropPart(lives[0], lives[0].parts[0])
				tick(false)
				sc.History[first].AfterOps = 2
				continue
			}
			for j := 0; j < rng.Range(0, 3); j++ {
				var alive []*lc
				for _, l := range lives {
					if l.alive {
						alive = append(alive, l)
					}
				}
				if len(alive) > 0 {
					data(Pick(rng, alive), false)
				}
			}
			x := rng.Intn(100)
			if pq {
				x = 45 // nothing but data and ticks around the directed events
			}
			switch {
			case x < 12 && len(lives) < 3:
				createColl(names[len(lives)], 1, "default", false)
			case x < 20 || (prop == "C04" && x < 40):
				var alive []*lc
				for _, l := range lives {
					if l.alive {
						alive = append(alive, l)
					}
				}
				if len(alive) > 0 {
					l := Pick(rng, alive)
					l.alive = false
					t := nextTs()
					tag++
					for s := 0; s < l.c.Shard; s++ {
						add(HEvent{K: "mq", PCh: srcPCh(s), Es: []*REntry{{Ts: t, Kind: "dropc", Coll: l.c.ID, Tag: tag}}}, false)
					}
					cat(CatWrite{What: "coll", DB: l.c.DBID, Coll: l.c.ID, Name: l.c.Name, State: int(pb.CollectionState_CollectionDropping), Ts: l.c.Ts, Shard: l.c.Shard}, false)
				}
			case withParts && x >= 50 && x < 85:
				var alive []*lc
				for _, l := range lives {
					if l.alive {
						alive = append(alive, l)
					}
				}
				if len(alive) > 0 {
					l := Pick(rng, alive)
					var lps []*lp
					for _, pt := range l.parts {
						if pt.alive {
							lps = append(lps, pt)
						}
					}
					if len(lps) > 0 && rng.Pct(60) {
						dropPart(l, Pick(rng, lps))
					} else if len(l.parts) < 2 {
						createPart(l, false)
					}
				}
			case x < 30:
				var alive []*lc
				for _, l := range lives {
					if l.alive {
						alive = append(alive, l)
					}
				}
				if len(alive) > 0 {
					l := Pick(rng, alive)
					t := nextTs()
					add(HEvent{K: "op", Ts: t, Op: &WDEvent{Ts: t, Stream: "op", Kind: Pick(rng, []string{"createidx", "loadc", "releasec", "flush"}), DB: l.c.DB, Coll: l.c.Name, Colls: []string{l.c.Name}, Name: "idx0", Field: "vec"}}, false)
				}
			}
			tick(false)
		}
		tick(false)
	}
	genSOps(rng, sc, prop)
	return sc
}

func genSOps(rng *Rng, sc *SScript, prop string) {
	taskN := 0
	newTask := func() string { taskN++; return fmt.Sprintf("tk%02d", taskN) }
	switch prop {
	case "C05", "C06", "C03", "C04":
		n := rng.Range(1, 2)
		for i := 0; i < n; i++ {
			sp := &SSpec{Target: 0, Coll: "*", Creds: "token", UseStart: rng.Pct(50)}
			if i == 1 {
				// a second task: either on another target, or an explicit collection excluded from the first
				if rng.Pct(50) {
					sp.Target = 1
				} else {
					// same downstream: the explicit collection has to come first (a '*' task then excludes it)
					sc.Ops[len(sc.Ops)-1].Spec.Coll = "c1"
				}
			}
			sc.Ops = append(sc.Ops, SOp{K: "create", Task: newTask(), Spec: sp})
		}
		if i := rng.Intn(100); i < 40 {
			sc.Ops = append(sc.Ops, SOp{K: "pause", Task: "tk01"}, SOp{K: "resume", Task: "tk01"})
		}
		sc.Faults["dw_err"] = rng.Range(0, 2)
		if rng.Pct(35) {
			sc.Faults["dw_down"] = 1
		}
		if rng.Pct(40) {
			sc.Faults["dw_pack"] = 1
		}
		if rng.Pct(40) {
			sc.Faults["store_err_before"] = rng.Range(1, 2)
		}
		if rng.Pct(25) {
			sc.Faults["store_err_after"] = 1
		}
		if rng.Pct(30) {
			sc.Faults["ddl_reject_before"] = 1
		}
		if prop == "C05" || prop == "C03" || prop == "C04" {
			sc.Knobs.Crashes = rng.Range(0, 2)
		}
		if (prop == "C05" || prop == "C06") && n == 2 && rng.Pct(30) {
			// directed constellation: two tasks whose packs meet in one batch of one downstream channel, and a pack that the
			// downstream refuses on every attempt (what happens to the packs behind it, and to the loop that serves both tasks)
			sc.Ops[0].Spec.Coll, sc.Ops[0].Spec.Target = "c1", 0
			sc.Ops[1].Spec.Coll, sc.Ops[1].Spec.Target = "*", 0
			sc.Knobs.PackCount = Pick(rng, []int{2, 3})
			sc.Knobs.PackTimerMs = 5000
			sc.Faults["dw_pack"] = rng.Range(1, 2)
			sc.Faults["dw_down"] = 0
		}
		if rng.Pct(20) {
			sc.MsgFaults = []int{rng.Range(0, 5)}
		}
		if (prop == "C06" || prop == "C05") && rng.Pct(20) {
			sc.StateFaults = rng.Range(1, 2)
			if sc.Faults["dw_pack"] == 0 && sc.Faults["dw_down"] == 0 {
				sc.Faults["dw_pack"] = 1
			}
		}
		if rng.Pct(15) {
			sc.ConnFaults = []int{rng.Range(0, 5)}
		}
		if prop != "C03" && rng.Pct(35) {
			// the task stays paused while the source goes on
			for i := range sc.Ops {
				if sc.Ops[i].K == "resume" {
					sc.Ops[i].AfterHist = rng.Range(2, 8)
				}
			}
		}
		if (prop == "C05" || prop == "C06") && rng.Pct(20) {
			// a small global memory budget: batches are closed by the memory threshold instead of the count / age thresholds
			sc.Knobs.PackMemKB = 1
			sc.Knobs.PackCount = 10
		}
		if (prop == "C05" || prop == "C06") && rng.Pct(40) {
			sc.Knobs.Recover = true
		}
		if sc.Directed == "connfail_resume" {
			// directed constellation: two tasks on one downstream (the replication entity and its channel manager outlive a
			// pause of one of them), the message queue refuses the connection when a collection that exists at the start of
			// the second task is opened (the task stops itself), nothing else is injected, and the recovery phase resumes it
			sc.Ops = []SOp{
				{K: "create", Task: "tk01", Spec: &SSpec{Target: 0, Coll: "c1", Creds: "token", UseStart: rng.Pct(50)}},
				{K: "create", Task: "tk02", Spec: &SSpec{Target: 0, Coll: "*", Creds: "token"}},
			}
			sc.Faults = map[string]int{}
			sc.MsgFaults, sc.StateFaults = nil, 0
			// (the first task checks one connection per shard of c1 when it is created; the next checks are those of c2, the
			// collection the second task finds at its start)
			sc.ConnFaults = []int{rng.Range(1, 3)}
			if len(sc.Colls) >= 2 && sc.Colls[0].Name == "c1" && sc.Colls[1].Name == "c2" {
				sc.ConnFaults = []int{sc.Colls[0].Shard + rng.Intn(sc.Colls[1].Shard)}
			}
			sc.Knobs.Crashes = 0
			sc.Knobs.Recover = true
		}
		if sc.Directed == "pdrop_queue" {
			sc.Ops = []SOp{
				{K: "create", Task: "tk01", Spec: &SSpec{Target: 0, Coll: "c1", Creds: "token"}},
				{K: "create", Task: "tk02", Spec: &SSpec{Target: 0, Coll: "*", Creds: "token"}},
				{K: "pause", Task: "tk01", Gate: "pdrop_window"},
				{K: "resume", Task: "tk01"},
			}
			sc.Knobs.Crashes = 0
			sc.Faults = map[string]int{}
			sc.MsgFaults, sc.ConnFaults, sc.StateFaults = nil, nil, 0
		}
	default:
		// lifecycle / ownership / API shapes: sequences over several tasks and targets
		n := rng.Range(4, 14)
		var tasks []string
		for i := 0; i < n; i++ {
			r := rng.Intn(100)
			switch {
			case r < 40 || len(tasks) == 0:
				sp := &SSpec{Target: rng.Intn(2), Creds: Pick(rng, []string{"token", "userpass", "none"})}
				switch rng.Intn(5) {
				case 0:
					sp.DB, sp.Coll = "", Pick(rng, []string{"c1", "c2", "*"})
				case 1:
					sp.DB, sp.Coll = "default", Pick(rng, []string{"c1", "*"})
				case 2:
					sp.DB, sp.Coll = "dbx", Pick(rng, []string{"c1", "*"})
				case 3:
					sp.DB, sp.Coll = "*", "*"
				case 4:
					sp.DB, sp.Coll = "", Pick(rng, []string{"c1", "c3"})
				}
				sp.UserRole = rng.Pct(20)
				sp.NoAuto = rng.Pct(15)
				if prop == "C18" && rng.Pct(35) {
					sp.Kafka = true
				}
				if prop == "C18" && rng.Pct(30) {
					sp.Stray = Pick(rng, []string{"sasl", "milvus", "both"})
				}
				if rng.Pct(20) && sp.Coll != "*" {
					sdb := sp.DB
					if sdb == "" {
						sdb = "default"
					}
					sp.MapDB = sdb + "2"
					if rng.Pct(50) {
						sp.MapColl = map[string]string{sp.Coll: sp.Coll + "x"}
					}
				} else if rng.Pct(12) {
					// a name mapping for a database the specification does not cover: must be rejected without a trace
					sp.MapSrcDB, sp.MapDB = "elsewhere", "t2"
					if rng.Pct(50) {
						sp.MapColl = map[string]string{"q1": "q2"}
					}
				}
				t := newTask()
				tasks = append(tasks, t)
				sc.Ops = append(sc.Ops, SOp{K: "create", Task: t, Spec: sp})
			case r < 55:
				sc.Ops = append(sc.Ops, SOp{K: "pause", Task: Pick(rng, tasks)})
			case r < 70:
				sc.Ops = append(sc.Ops, SOp{K: "resume", Task: Pick(rng, tasks)})
			case r < 85:
				sc.Ops = append(sc.Ops, SOp{K: "delete", Task: Pick(rng, tasks)})
			case r < 92:
				sc.Ops = append(sc.Ops, SOp{K: "get", Task: Pick(rng, tasks)})
			default:
				sc.Ops = append(sc.Ops, SOp{K: "list"})
			}
		}
		if rng.Pct(50) {
			sc.Faults["store_err_before"] = rng.Range(1, 3)
		}
		if rng.Pct(25) {
			sc.Faults["store_err_after"] = 1
		}
		if rng.Pct(20) {
			sc.Faults["tq_err"] = 1
		}
		if prop == "C11" && rng.Pct(35) {
			sc.ConnFaults = []int{rng.Range(0, 5)}
			if rng.Pct(30) {
				sc.ConnFaults = append(sc.ConnFaults, rng.Range(1, 7))
			}
		}
		if prop == "C11" || prop == "C10" || prop == "C18" {
			sc.Knobs.Crashes = rng.Range(0, 1)
		}
		if prop == "C19" {
			genRawOps(rng, sc, tasks)
			if rng.Pct(8) {
				// directed opening: an explicit task and a wildcard task that excludes it on one downstream, then a wildcard
				// request (which carries exclusions of its own) that is rejected for its positions
				mcp := `"milvus_connect_param":{"uri":"http://tgt-a:19530"}`
				bad := Pick(rng, []string{
					`"db_collections":{"*":[{"name":"*","positions":{"notavchannel":"CgFh"}}]}`,
					`"db_collections":{"*":[{"name":"*","positions":{"by-dev-rootcoord-dml_0_5v0":"CgFh","by-dev-rootcoord-dml_1_6v0":"CgFh"}}]}`,
					`"db_collections":{"*":[{"name":"*","positions":{"by-dev-rootcoord-dml_0_5v0":"!!"}}]}`,
					`"db_collections":{"*":[{"name":"c1","positions":{"by-dev-rootcoord-dml_0_5v0":"CgFh","by-dev-rootcoord-dml_1_6v0":"CgFh"}}]}`,
					`"db_collections":{"*":[{"name":"c1","positions":{"by-dev-rootcoord-dml_0_xv0":"CgFh"}}]}`,
					`"db_collections":{"*":[{"name":"c1","positions":{"by-dev-rootcoord-dml_0_5v0":"!!"}}]}`,
				})
				open3 := []SOp{
					{K: "create", Task: "tk91", Spec: &SSpec{Target: 0, DB: "", Coll: "c1", Creds: "token"}},
					{K: "create", Task: "tk92", Spec: &SSpec{Target: 0, DB: "default", Coll: "*", Creds: "token"}},
					{K: "raw", Task: "raw91", Method: "POST", MustReject: true, Body: `{"request_type":"create","request_data":{"task_id":"raw91",` + mcp + `,` + bad + `}}`},
				}
				sc.Ops = append(open3, sc.Ops...)
				sc.Knobs.MaxTaskNum = 10
			}
		}
	}
}

type rawBody struct {
	body string
	rej  bool
}

func genRawOps(rng *Rng, sc *SScript, tasks []string) {
	mcp := `"milvus_connect_param":{"uri":"http://tgt-a:19530"}`
	cr := func(rest string) string {
		return `{"request_type":"create","request_data":{"task_id":"@ID@",` + rest + `}}`
	}
	bodies := []rawBody{
		{``, false}, {`{`, false}, {`null`, false}, {`[]`, false}, {`"x"`, false}, {`{"request_type":1}`, false}, {`{"request_type":"nope"}`, false},
		{`{"request_type":"create"}`, true},
		{`{"request_type":"create","request_data":null}`, true},
		{`{"request_type":"create","request_data":{"milvus_connect_param":"x"}}`, true},
		{cr(`"milvus_connect_param":{"uri":"http://tgt-a:19530","connect_timeout":-1},"collection_infos":[{"name":"c1"}]`), true},
		{cr(mcp + `,"collection_infos":[{"name":"a.b"}]`), true},
		{cr(mcp + `,"db_collections":{"d.x":[{"name":"c9"}]}`), true},
		{cr(mcp + `,"collection_infos":[{"name":""}]`), true},
		{cr(mcp + `,"collection_infos":[{"name":"c7","positions":{"by-dev-rootcoord-dml_0_1v0":"!!notbase64"}}]`), true},
		{cr(mcp + `,"collection_infos":[{"name":"c7","positions":{"by-dev-rootcoord-dml_0":"AAAA"}}]`), true},
		{cr(mcp + `,"collection_infos":[{"name":"c7","positions":{"by-dev-rootcoord-dml_0_1v0":"AAAA"}}]`), true},
		{cr(mcp + `,"collection_infos":[{"name":"c7","positions":{"by-dev-rootcoord-dml_0_5v0":"CgFh","by-dev-rootcoord-dml_1_6v0":"CgFh"}}]`), true},
		{cr(mcp + `,"kafka_connect_param":{"address":"k:9092","topic":"t"},"collection_infos":[{"name":"c7"}]`), true},
		{cr(mcp + `,"collection_infos":[{"name":"c7"}],"buffer_config":{"period":-1}`), true},
		{cr(mcp + `,"collection_infos":[{"name":"c7"}],"buffer_config":{"size":-5}`), true},
		{cr(mcp + `,"collection_infos":[{"name":"c7"}],"rpc_channel_info":{"name":"other-chan"}`), true},
		{cr(mcp + `,"collection_infos":[{"name":"c7"}],"rpc_channel_info":{"position":"%%%"}`), true},
		{cr(mcp + `,"collection_infos":[{"name":"c7"}],"name_mapping":[{"source_db":"default","target_db":"t","collection_mapping":{"zz":"yy"}}]`), true},
		{cr(mcp + `,"collection_infos":[{"name":"c7"}],"name_mapping":[{"source_db":"a.b","target_db":"t"}]`), true},
		{cr(mcp + `,"collection_infos":[{"name":"c7"}],"name_mapping":[{"source_db":"a.b","target_db":"t","collection_mapping":{}}]`), true},
		{cr(mcp + `,"collection_infos":[{"name":"c7"}],"name_mapping":[{"source_db":"default","target_db":"t.u"}]`), true},
		{cr(mcp + `,"collection_infos":[{"name":"c7"}],"name_mapping":[{"source_db":"default","target_db":"t","collection_mapping":{"c7":"x.y"}}]`), true},
		{cr(mcp + `,"collection_infos":[{"name":"c7"}],"name_mapping":[{"source_db":"default","target_db":"t","collection_mapping":{"c.7":"xy"}}]`), true},
		{cr(`"milvus_connect_param":{"host":"h","port":0},"collection_infos":[{"name":"c7"}]`), true},
		{cr(`"milvus_connect_param":{"uri":"http://tgt-a:19530","username":"u"},"collection_infos":[{"name":"c7"}]`), true},
		{cr(mcp + `,"collection_infos":[{"name":"*","positions":{"x_1v0":"AA=="}}]`), true},
		{cr(mcp + `,"collection_infos":[{"name":"a"},{"name":"b"}]`), true},
		{cr(mcp + `,"collection_infos":[{"name":"a"}],"db_collections":{"default":[{"name":"b"}]}`), true},
		{cr(mcp + `,"db_collections":{"d1":[{"name":"a"}],"d2":[{"name":"b"}]}`), true},
		{cr(mcp + `,"collection_infos":[]`), true},
		{cr(`"collection_infos":[{"name":"c7"}]`), true},
		{cr(mcp + `,"collection_infos":[{"name":"` + longName(300) + `"}]`), true},
		// rejected after a start position was stored: nothing may stay behind (also when the server chooses the task id)
		{cr(mcp + `,"collection_infos":[{"name":"c7","positions":{"by-dev-rootcoord-dml_0_4711v0":"CgFh"}}],"rpc_channel_info":{"position":"%%%"}`), true},
		{cr(mcp + `,"collection_infos":[{"name":"c7","positions":{"by-dev-rootcoord-dml_0_4711v0":"CgFh","by-dev-rootcoord-dml_1_4711v1":"CgFh"}}],"rpc_channel_info":{"position":"!"}`), true},
		// wildcard specifications (they carry exclusions when explicit tasks exist) rejected for their positions
		{cr(mcp + `,"collection_infos":[{"name":"*","positions":{"notavchannel":"CgFh"}}]`), true},
		{cr(mcp + `,"db_collections":{"*":[{"name":"*","positions":{"notavchannel":"CgFh"}}]}`), true},
		{cr(mcp + `,"db_collections":{"*":[{"name":"*","positions":{"by-dev-rootcoord-dml_0_5v0":"CgFh","by-dev-rootcoord-dml_1_6v0":"CgFh"}}]}`), true},
		{cr(mcp + `,"collection_infos":[{"name":"*","positions":{"by-dev-rootcoord-dml_0_5v0":"CgFh","by-dev-rootcoord-dml_1_6v0":"CgFh"}}]`), true},
		{`{"request_type":"get","request_data":{}}`, false}, {`{"request_type":"get","request_data":{"task_id":12}}`, false}, {`{"request_type":"get","request_data":{"task_id":"nope"}}`, false},
		{`{"request_type":"delete","request_data":{"task_id":"nope"}}`, false}, {`{"request_type":"pause","request_data":{"task_id":"nope"}}`, false}, {`{"request_type":"resume","request_data":{"task_id":"nope"}}`, false},
		{`{"request_type":"position","request_data":{"task_id":"nope"}}`, false}, {`{"request_type":"list","request_data":"x"}`, false}, {`{"request_type":"maintenance","request_data":{}}`, false},
		{`{"request_type":"create","request_type":"list","request_data":{}}`, false},
	}
	n := rng.Range(3, 8)
	for i := 0; i < n; i++ {
		b := Pick(rng, bodies)
		op := SOp{K: "raw", Body: strings.ReplaceAll(b.body, "@ID@", fmt.Sprintf("raw%02d", i)), Method: "POST", MustReject: b.rej, Task: fmt.Sprintf("raw%02d", i)}
		if strings.Contains(b.body, "@ID@") {
			switch x := rng.Intn(100); {
			case x < 25:
				// the server chooses the task id
				op.Body = strings.ReplaceAll(b.body, `"task_id":"@ID@",`, "")
				op.Task = ""
			case x < 45:
				// task ids that are path expressions: semantically invalid names
				bad := Pick(rng, []string{"..", ".", "a/b", "x/../tk01", "tk01/..", "../task_info/tk01", "tk01/", "/tk01"})
				op.Body = strings.ReplaceAll(b.body, "@ID@", bad)
				op.Task = bad
				op.MustReject = true
			}
		}
		if rng.Pct(8) {
			op.Method = Pick(rng, []string{"GET", "PUT", "DELETE"})
			op.MustReject = true
		}
		if rng.Pct(15) {
			// random bytes
			bs := make([]byte, rng.Range(0, 24))
			for j := range bs {
				bs[j] = byte(rng.Intn(256))
			}
			op.Body = string(bs)
			op.MustReject = false
		}
		pos := rng.Intn(len(sc.Ops) + 1)
		sc.Ops = append(sc.Ops[:pos], append([]SOp{op}, sc.Ops[pos:]...)...)
	}
}

func longName(n int) string {
	b := make([]byte, n)
	for i := range b {
		b[i] = 'n'
	}
	return string(b)
}
