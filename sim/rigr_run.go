package sim

import (
	"context"
	"encoding/json"
	"errors"
	"fmt"
	"os"
	"sort"
	"strings"
	"sync"
	"testing"
	"testing/synctest"
	"time"

	"github.com/milvus-io/milvus-proto/go-api/v2/commonpb"
	"github.com/milvus-io/milvus-proto/go-api/v2/msgpb"
	"github.com/milvus-io/milvus-proto/go-api/v2/schemapb"
	"github.com/milvus-io/milvus/pkg/mq/msgstream"
	"go.uber.org/zap/zapcore"

	"github.com/zilliztech/milvus-cdc/core/api"
	"github.com/zilliztech/milvus-cdc/core/config"
	cdclog "github.com/zilliztech/milvus-cdc/core/log"
	"github.com/zilliztech/milvus-cdc/core/meta"
	"github.com/zilliztech/milvus-cdc/core/model"
	"github.com/zilliztech/milvus-cdc/core/pb"
	"github.com/zilliztech/milvus-cdc/core/reader"
	"github.com/zilliztech/milvus-cdc/core/util"
)

// ------------------------------------------------------------------ downstream catalog (api.TargetAPI level)

type TgtPart struct {
	ID      int64
	Late    int
	Visible bool
}

type TgtColl struct {
	DB, Name string
	ID       int64
	VCh      []string
	Parts    map[string]*TgtPart
	SrcID    int64
}

type SimTarget struct {
	sim   *Sim
	mu    sync.Mutex
	Colls map[string]*TgtColl // db/name
}

func tkey(db, name string) string {
	if db == "" {
		db = "default"
	}
	return db + "/" + name
}

func (t *SimTarget) GetCollectionInfo(ctx context.Context, collectionName, databaseName string) (*model.CollectionInfo, error) {
	o := t.sim.Park(ctx, "tq", "gci:"+tkey(databaseName, collectionName), nil)
	if o.CtxErr != nil {
		return nil, o.CtxErr
	}
	if o.Fault != "" {
		return nil, errors.New("sim: rpc error: code = Unavailable desc = transient")
	}
	t.mu.Lock()
	defer t.mu.Unlock()
	c := t.Colls[tkey(databaseName, collectionName)]
	if c == nil {
		return nil, fmt.Errorf("collection not found[database=%s][collection=%s]", databaseName, collectionName)
	}
	info := &model.CollectionInfo{DatabaseName: databaseName, CollectionID: c.ID, CollectionName: collectionName,
		VChannels: append([]string(nil), c.VCh...), Partitions: map[string]int64{}}
	for _, v := range c.VCh {
		info.PChannels = append(info.PChannels, physOf(v))
	}
	for n, p := range c.Parts {
		if p.Visible {
			info.Partitions[n] = p.ID
		}
	}
	return info, nil
}

func (t *SimTarget) GetPartitionInfo(ctx context.Context, collectionName, databaseName string) (*model.CollectionInfo, error) {
	o := t.sim.Park(ctx, "tq", "gpi:"+tkey(databaseName, collectionName), nil)
	if o.CtxErr != nil {
		return nil, o.CtxErr
	}
	if o.Fault != "" {
		return nil, errors.New("sim: rpc error: code = Unavailable desc = transient")
	}
	t.mu.Lock()
	defer t.mu.Unlock()
	c := t.Colls[tkey(databaseName, collectionName)]
	if c == nil {
		return nil, fmt.Errorf("collection not found[database=%s][collection=%s]", databaseName, collectionName)
	}
	info := &model.CollectionInfo{Partitions: map[string]int64{}}
	for n, p := range c.Parts {
		if !p.Visible && p.Late > 0 {
			p.Late--
			if p.Late == 0 {
				p.Visible = true
				t.sim.Probe("late_partition_published")
			}
			continue
		}
		if p.Visible {
			info.Partitions[n] = p.ID
		}
	}
	return info, nil
}

func (t *SimTarget) GetDatabaseName(ctx context.Context, collectionName, databaseName string) (string, error) {
	return databaseName, nil
}

// ------------------------------------------------------------------ source catalog stub (api.MetaOp level, rig R only)

type rMetaOp struct {
	api.DefaultMetaOp
	s *RScript
}

func (m *rMetaOp) GetCollectionNameByID(ctx context.Context, id int64) string {
	if c := m.s.coll(id); c != nil {
		return c.Name
	}
	return ""
}

func (m *rMetaOp) GetDatabaseInfoForCollection(ctx context.Context, id int64) model.DatabaseInfo {
	if c := m.s.coll(id); c != nil {
		return model.DatabaseInfo{ID: c.DBID, Name: c.DB}
	}
	return model.DatabaseInfo{}
}

// ------------------------------------------------------------------ in-memory replicate store

type memReplicateStore struct {
	mu sync.Mutex
	m  map[string]api.MetaMsg
}

func (s *memReplicateStore) Get(ctx context.Context, key string, withPrefix bool) ([]api.MetaMsg, error) {
	s.mu.Lock()
	defer s.mu.Unlock()
	var out []api.MetaMsg
	for _, k := range SortedKeys(s.m) {
		if k == key || (withPrefix && strings.HasPrefix(k, key)) {
			out = append(out, s.m[k])
		}
	}
	return out, nil
}
func (s *memReplicateStore) Put(ctx context.Context, key string, value api.MetaMsg) error {
	s.mu.Lock()
	defer s.mu.Unlock()
	s.m[key] = value
	return nil
}
func (s *memReplicateStore) Remove(ctx context.Context, key string) error {
	s.mu.Lock()
	defer s.mu.Unlock()
	delete(s.m, key)
	return nil
}

// ------------------------------------------------------------------ recorded output

type EmMsg struct {
	Type      string // ins del dropp dropc tick other
	Tag       int64
	Begin     uint64
	End       uint64
	RowTs     []uint64
	CollID    int64
	PartID    int64
	PartName  string
	PartIDs   []int64 // import messages
	Shard     string
	PosCh     string
	PosSeq    int
	PosTs     uint64
	Raw       msgstream.TsMsg
	TickValue uint64
}

type EmPack struct {
	Queue    string
	Idx      int // order on the queue
	Step     int
	CollID   int64
	CollName string
	SrcPCh   string
	Task     string
	BeginTs  uint64
	EndTs    uint64
	StartPos []*msgpb.MsgPosition
	EndPos   []*msgpb.MsgPosition
	Msgs     []*EmMsg
	Raw      *msgstream.MsgPack
}

type EmEvent struct {
	Step   int
	Appear int // step at which the event was first visible in the queue
	Type   api.ReplicateAPIEventType
	Coll   int64
	CName  string
	Part   int64
	PName  string
	DB     string
	Ts     uint64
	Task   string
	MsgID  string
	Err    string
	IsRep  bool
}

type barrierSig struct {
	tgtV string
	id   int64
	step int
}

type lockNote struct {
	tick uint64
	pack *msgstream.MsgPack
}

type rOpState struct {
	op        *ROp
	issued    bool
	issuedAt  int
	done      bool
	doneAt    int
	err       error
	regAtDone int // streams of the collection registered when the call returned
	handlers  int // hand-overs of the partition observed while the call ran (hook H16): the size of the barrier
	regAtLoop int // 1 + streams of the collection registered when the call began to hand the partition to the handlers (0 = not yet)
}

type RigR struct {
	sim       *Sim
	sc        *RScript
	mq        *SimMQ
	tgt       *SimTarget
	mgr       api.ChannelManager
	ctx       context.Context
	cancel    context.CancelFunc
	queues    map[string]<-chan *api.ReplicateMsg
	qorder    []string
	Packs     []*EmPack
	perQ      map[string]int
	Events    []*EmEvent
	ops       []*rOpState
	opMu      sync.Mutex
	replID    string
	errSeen   bool
	sigs      []barrierSig // barrier signals that reached a barrier goroutine (released yields)
	evAppear  []int        // step at which each event (in channel order) was first seen in the event queue
	evSeen    int
	evRecv    int
	resets    map[*msgstream.MsgPack][][2]uint64 // pack -> ranges of timestamps its messages were re-stamped to
	mapSeen   map[string]string                  // channel assignment table as first observed (C16: an assignment never changes)
	noteMu    sync.Mutex
	lockOrder map[string][]lockNote // downstream channel -> closing ticks in the order computed under the channel lock
	fwdPacks  map[string]bool       // "collection|source pchannel|end message id" of packs observed taking the forward path (hook H15)
	drainIdle int                   // consecutive idle half-seconds of the drain so far
}

func loadOrGenR(plan *Plan) *RScript {
	if len(plan.Script) > 0 {
		var sc RScript
		if err := json.Unmarshal(plan.Script, &sc); err != nil {
			HarnessFail(plan, "bad script: %v", err)
		}
		return &sc
	}
	sc := GenR(NewRng(plan.Seed), plan.Prop, plan.Tier)
	b, _ := json.Marshal(sc)
	plan.Script = b
	return sc
}

func RunRigR(t *testing.T, plan *Plan) {
	sc := loadOrGenR(plan)
	lvl := zapcore.ErrorLevel
	if plan.LogLevel == "debug" {
		lvl = zapcore.DebugLevel
	} else if plan.LogLevel == "info" {
		lvl = zapcore.InfoLevel
	}
	cdclog.SetLevel(lvl)
	synctest.Test(t, func(t *testing.T) {
		s := NewSim(t, plan)
		s.Start = time.Now()
		StartWatchdogOutside(s)
		r := &RigR{sim: s, sc: sc, queues: map[string]<-chan *api.ReplicateMsg{}, perQ: map[string]int{}, replID: "repl-" + fmt.Sprint(plan.Seed)}
		for k, v := range sc.Faults {
			s.FaultBudget[k] = v
		}
		r.run()
		res := s.Result("ok")
		res.Real = []string{"reader.replicateChannelManager", "reader.replicateChannelHandler", "reader.tsManager", "reader.Barrier", "util.ChannelMapping", "reader.DisptachClientStreamCreator", "meta.ReplicateMeteImpl"}
		res.Stub = []string{"msgdispatcher.Client (SimMQ)", "msgstream.Factory (SimMQ)", "api.TargetAPI (SimTarget)", "api.MetaOp (script catalog)", "api.ReplicateStore (memory)", "server side: harness drains queues"}
		res.Sample = r.sample()
		WriteResult(res)
		code := 0
		if res.Status == "violation" {
			code = 1
		}
		os.Exit(code)
	})
}

// watchdogStarter is set by the test main (outside any bubble).
var watchdogReq = make(chan *Sim, 1)

func StartWatchdogOutside(s *Sim) {
	select {
	case watchdogReq <- s:
	default:
	}
}

// WatchdogLoop is started by TestMain before any bubble exists, so its goroutine
// and timers are real.
func WatchdogLoop() {
	go func() {
		s := <-watchdogReq
		StartWatchdog(s, 8*time.Second)
	}()
}

func (r *RigR) sample() any {
	type sm struct {
		Colls  []*RColl       `json:"colls"`
		SrcP   []string       `json:"srcp"`
		TgtP   []string       `json:"tgtp"`
		Packs  int            `json:"emitted_packs"`
		Events int            `json:"events"`
		Ops    int            `json:"ops"`
		LogLen map[string]int `json:"log_entries"`
	}
	x := sm{Colls: r.sc.Colls, SrcP: r.sc.SrcP, TgtP: r.sc.TgtP, Packs: len(r.Packs), Events: len(r.Events), Ops: len(r.sc.Ops), LogLen: map[string]int{}}
	for k, v := range r.sc.Log {
		x.LogLen[k] = len(v)
	}
	if os.Getenv("VERIF_DUMP") != "" {
		var lines []string
		for _, p := range r.Packs {
			l := fmt.Sprintf("q=%s #%d step=%d coll=%d src=%s begin=%d end=%d endseq=%d:", p.Queue, p.Idx, p.Step, p.CollID, p.SrcPCh, p.BeginTs%1000000000, p.EndTs%1000000000, MsgIDToSeq(p.EndPos[0].MsgID))
			for _, m := range p.Msgs {
				l += fmt.Sprintf(" [%s tag=%d ts=%d]", m.Type, m.Tag, m.Begin%1000000000)
			}
			lines = append(lines, l)
		}
		for q, lo := range r.lockOrder {
			l := "lockorder " + q + ":"
			for _, t := range lo {
				l += fmt.Sprintf(" %d", t.tick%1000000000)
			}
			lines = append(lines, l)
		}
		return lines
	}
	return x
}

func (r *RigR) run() {
	s, sc := r.sim, r.sc
	r.mq = NewSimMQ(s, sc.Log, sc.coll)
	r.tgt = &SimTarget{sim: s, Colls: map[string]*TgtColl{}}
	for _, c := range sc.Colls {
		if c.Pre {
			r.createDownstream(c, true)
		}
	}
	for _, op := range sc.Ops {
		r.ops = append(r.ops, &rOpState{op: op})
	}
	reader.VerifHandlerOrder = SeededHandlerOrder(s.Plan.Seed, 0)
	if sc.Knobs.Yields || sc.Knobs.BarrierYield {
		reader.VerifYield = func(point, ch string, coll int64) {
			if strings.HasPrefix(point, "barrier") || strings.HasPrefix(point, "partition") {
				if !sc.Knobs.BarrierYield {
					return
				}
			} else if !sc.Knobs.Yields {
				return
			}
			if point == "partition:handler" {
				// the partition's barrier has just been sized by the handlers found: how many shard streams are registered now?
				// (at this point the id handed to the hook is the partition's)
				part := coll
				r.opMu.Lock()
				for _, o := range r.ops {
					if o.op.Kind == "addpart" && o.op.Part == part && o.issued && !o.done && o.regAtLoop == 0 {
						n := 0
						if c := sc.coll(o.op.Coll); c != nil {
							for _, v := range c.SrcV {
								if st := r.mq.Stream(v); st != nil {
									n++
								}
							}
						}
						o.regAtLoop = n + 1
					}
					if o.op.Kind == "addpart" && o.op.Part == part && o.issued && !o.done {
						o.handlers++ // one hand-over per handler found = the size of the partition's barrier
					}
				}
				r.opMu.Unlock()
			}
			s.Park(nil, "yield", fmt.Sprintf("%s:%s:%d", point, ch, coll), nil)
		}
	}
	r.lockOrder = map[string][]lockNote{}
	r.resets = map[*msgstream.MsgPack][][2]uint64{}
	r.fwdPacks = map[string]bool{}
	reader.VerifNote = func(point, ch string, a uint64, ref any) {
		if point == "pack:forward" {
			if mp, _ := ref.(*msgstream.MsgPack); mp != nil && len(mp.EndPositions) > 0 {
				r.noteMu.Lock()
				r.fwdPacks[fmt.Sprintf("%d|%s|%d", int64(a), ch, MsgIDToSeq(mp.EndPositions[0].MsgID))] = true
				r.noteMu.Unlock()
			}
		}
		if point == "pack:reset" {
			mp, _ := ref.(*msgstream.MsgPack)
			r.noteMu.Lock()
			r.resets[mp] = append(r.resets[mp], [2]uint64{a + 1, a + uint64(len(mp.Msgs))})
			r.noteMu.Unlock()
		}
		if point == "pack:locked" {
			mp, _ := ref.(*msgstream.MsgPack)
			r.noteMu.Lock()
			r.lockOrder[ch] = append(r.lockOrder[ch], lockNote{a, mp})
			r.noteMu.Unlock()
		}
	}
	s.OnRelease = func(c *Call, o Outcome) {
		if c.Kind == "yield" && strings.HasPrefix(c.Key, "barrier:signal:") {
			rest := strings.TrimPrefix(c.Key, "barrier:signal:")
			i := strings.LastIndex(rest, ":")
			var id int64
			fmt.Sscanf(rest[i+1:], "%d", &id)
			r.sigs = append(r.sigs, barrierSig{tgtV: rest[:i], id: id, step: s.Step})
		}
	}
	store := &memReplicateStore{m: map[string]api.MetaMsg{}}
	rm, err := meta.NewReplicateMetaImpl(store)
	if err != nil {
		HarnessFail(s.Plan, "replicate meta: %v", err)
	}
	cfg := config.ReaderConfig{
		MessageBufferSize: sc.Knobs.BufSize, TTInterval: sc.Knobs.TTIntervalMs,
		Retry:            config.RetrySettings{RetryTimes: sc.Knobs.RetryTimes, InitBackOff: sc.Knobs.InitBackoff, MaxBackOff: sc.Knobs.MaxBackoff},
		SourceChannelNum: sc.Knobs.SrcNum, TargetChannelNum: sc.Knobs.TgtNum, ReplicateID: r.replID,
	}
	cb := func(string, *msgstream.MsgPack) {}
	mgr, err := reader.NewReplicateChannelManager(r.mq, &SimFactory{MQ: r.mq}, r.tgt, cfg, &rMetaOp{s: sc}, rm, cb, "milvus")
	if err != nil {
		HarnessFail(s.Plan, "manager: %v", err)
	}
	r.mgr = mgr
	r.ctx, r.cancel = context.WithCancel(context.Background())
	reader.VerifEventQueueCap = func() int { return sc.Knobs.EventCap }
	mgr.SetCtx(r.ctx)

	idleClock := 0
	s.SetPhase("main")
	for s.Step < sc.Knobs.MaxSteps {
		s.Settle()
		r.noteEvents()
		r.checkMappingStep()
		acts := r.actions(false)
		nonClock := len(acts)
		acts = append(acts, r.clockActions()...)
		if nonClock == 0 {
			idleClock++
			if idleClock > 40 {
				break
			}
		} else {
			idleClock = 0
		}
		s.StepOnce(acts)
	}
	// drain: no faults, canonical order, bounded
	s.SetPhase("drain")
	s.Draining = true
	idle := 0
	drainSteps := 0
	for idle < 120 && drainSteps < 6000 {
		s.Settle()
		r.noteEvents()
		r.checkMappingStep()
		r.drainIdle = idle
		acts := r.actions(true)
		if len(acts) == 0 {
			idle++
			s.Advance(500 * time.Millisecond)
			continue
		}
		idle = 0
		drainSteps++
		sort.Slice(acts, func(i, j int) bool { return acts[i].Key < acts[j].Key })
		a := acts[0]
		s.logf("%04d t=%dms drain %s", s.Step, s.Now().Milliseconds(), a.Key)
		s.Step++
		s.Tick()
		a.Run()
	}
	s.Settle()
	if drainSteps >= 6000 {
		HarnessFail(s.Plan, "drain did not quiesce in 6000 steps")
	}
	s.SetPhase("oracle")
	r.oracles()
}

// noteEvents records the step at which events became visible in the event queue.
func (r *RigR) noteEvents() {
	n := r.evRecv + len(r.mgr.GetEventChan())
	for r.evSeen < n {
		r.evAppear = append(r.evAppear, r.sim.Step)
		r.evSeen++
	}
}

func (r *RigR) clockActions() []Action {
	w := r.sc.Knobs.ClockWeight
	var acts []Action
	for _, ms := range []int{10, 100, 500, 1000} {
		ms := ms
		acts = append(acts, Action{Key: fmt.Sprintf("clk:%04d", ms), Weight: w, Run: func() {
			r.sim.Stats["clock_advance"]++
			r.sim.Advance(time.Duration(ms) * time.Millisecond)
		}})
	}
	return acts
}

func (r *RigR) roundsPublished() int {
	max := 0
	for _, st := range r.mq.All {
		if len(st.Delivered) > max {
			max = len(st.Delivered)
		}
	}
	return max
}

func (r *RigR) opState(kind string, coll int64) *rOpState {
	for _, o := range r.ops {
		if o.op.Kind == kind && o.op.Coll == coll {
			return o
		}
	}
	return nil
}

func (r *RigR) actions(drain bool) []Action {
	s := r.sim
	acts := s.ReleaseActions(func(c *Call) []string {
		switch c.Kind {
		case "tq":
			return []string{"tq_err"}
		case "reg":
			return []string{"reg_err"}
		}
		return nil
	})
	for _, st := range r.mq.Streams() {
		st := st
		if st.CanDeliver() {
			acts = append(acts, Action{Key: "dlv:" + st.VCh, Weight: 5, Run: func() {
				dp := st.Deliver()
				if dp != nil {
					s.Side("delivered %s endseq=%d n=%d", st.VCh, dp.EndSeq, len(dp.Entries))
				}
			}})
		}
	}
	// operator ops
	r.opMu.Lock()
	rounds := r.roundsPublished()
	for i, o := range r.ops {
		o := o
		if o.issued {
			continue
		}
		if !drain && o.op.AfterRound >= 0 && rounds <= o.op.AfterRound {
			continue
		}
		if o.op.AfterColl != 0 {
			if dep := r.opState("start", o.op.AfterColl); dep == nil || !dep.done || dep.err != nil {
				continue
			}
		}
		if r.sim.Plan.Prop == "C16" && o.op.Kind == "start" && !r.sc.Knobs.ConcurrentStarts {
			// offers are serialised: one StartReadCollection in flight (keeps the unbuffered wait/forward rendezvous replayable)
			busy := false
			for _, x := range r.ops {
				if x.op.Kind == "start" && x.issued && !x.done {
					busy = true
				}
			}
			if busy {
				continue
			}
		}
		st := r.opState("start", o.op.Coll)
		switch o.op.Kind {
		case "addpart":
			if st == nil || !st.issued {
				continue
			}
		case "stop":
			if st == nil || !st.done {
				continue
			}
		case "start2":
			if st == nil || !st.issued {
				continue
			}
		}
		acts = append(acts, Action{Key: fmt.Sprintf("op:%02d:%s:%d:%d", i, o.op.Kind, o.op.Coll, o.op.Part), Weight: 4, Run: func() { r.issue(o) }})
	}
	r.opMu.Unlock()
	// output side
	if c := reader.GetTSManager().GetTargetChannelChan(r.replID); c != nil && len(c) > 0 {
		acts = append(acts, Action{Key: "chan-recv", Weight: 6, Run: func() {
			name := <-c
			if _, ok := r.queues[name]; !ok {
				r.queues[name] = r.mgr.GetMsgChan(name)
				r.qorder = append(r.qorder, name)
				sort.Strings(r.qorder)
				s.Side("new target channel %s", name)
			}
		}})
	}
	for _, q := range r.qorder {
		q := q
		ch := r.queues[q]
		if ch != nil && len(ch) > 0 {
			acts = append(acts, Action{Key: "q:" + q, Weight: r.sc.Knobs.DrainQueueW, Run: func() { r.recvPack(q, <-ch) }})
		}
	}
	if ec := r.mgr.GetEventChan(); len(ec) > 0 {
		w := 6
		if r.sc.Knobs.EventDrainW > 0 {
			w = r.sc.Knobs.EventDrainW
		}
		if cap(ec) > 0 && len(ec) == cap(ec) && cap(ec) < 10 {
			s.Probe("event_queue_full")
		}
		// a busy event loop (EventDrainW == 1) receives an event only when nothing else is left to do - during the drain only
		// after 45 simulated seconds of idleness, which is longer than any retry budget of the reader
		if busy := r.sc.Knobs.EventDrainW == 1; !busy || (!drain && len(acts) == 0) || (drain && len(acts) == 0 && r.drainIdle >= 90) {
			acts = append(acts, Action{Key: "ev", Weight: w, Run: func() { r.recvEvent(<-ec) }})
		}
	}
	return acts
}

func (r *RigR) pbInfo(c *RColl) *pb.CollectionInfo {
	info := &pb.CollectionInfo{ID: c.ID, Schema: &schemapb.CollectionSchema{Name: c.Name}, CreateTime: c.CreateTs,
		VirtualChannelNames: append([]string(nil), c.SrcV...), ShardsNum: int32(len(c.SrcV)), DbId: c.DBID}
	for _, v := range c.SrcV {
		info.PhysicalChannelNames = append(info.PhysicalChannelNames, physOf(v))
		info.StartPositions = append(info.StartPositions, &commonpb.KeyDataPair{Key: physOf(v), Data: SeqToMsgID(0)})
	}
	if c.State == "dropped" {
		info.State = pb.CollectionState_CollectionDropped
	}
	return info
}

func (r *RigR) issue(o *rOpState) {
	s := r.sim
	o.issued = true
	o.issuedAt = s.Step
	c := r.sc.coll(o.op.Coll)
	if c == nil {
		o.done = true
		return
	}
	ctx := util.GetCtxWithTaskID(r.ctx, c.Task)
	db := &model.DatabaseInfo{ID: c.DBID, Name: c.DB}
	info := r.pbInfo(c)
	switch o.op.Kind {
	case "start", "start2":
		if o.op.Kind == "start2" {
			s.Probe("collection_announced_twice")
		}
		var seek []*msgpb.MsgPosition
		if !c.SeekNil {
			for _, v := range c.SrcV {
				ts := c.CreateTs
				if c.ResumeTs > ts {
					ts = c.ResumeTs
				}
				seek = append(seek, &msgpb.MsgPosition{ChannelName: physOf(v), MsgID: SeqToMsgID(0), Timestamp: ts})
			}
		}
		go func() {
			err := r.mgr.StartReadCollection(ctx, db, info, seek, nil)
			r.opMu.Lock()
			o.done, o.err, o.doneAt = true, err, s.Step
			r.opMu.Unlock()
			s.Side("start %d returned err=%v", c.ID, err != nil)
		}()
	case "addpart":
		p := c.part(o.op.Part)
		if p == nil {
			o.done = true
			return
		}
		pi := &pb.PartitionInfo{PartitionID: p.ID, PartitionName: p.Name, PartitionCreatedTimestamp: p.CreateTs, CollectionId: c.ID}
		if p.State == "dropped" {
			pi.State = pb.PartitionState_PartitionDropped
		}
		tmp := &pb.CollectionInfo{ID: c.ID, Schema: &schemapb.CollectionSchema{Name: c.Name}, VirtualChannelNames: append([]string(nil), c.SrcV...)}
		go func() {
			err := r.mgr.AddPartition(ctx, db, tmp, pi)
			r.opMu.Lock()
			o.done, o.err, o.doneAt = true, err, s.Step
			for _, v := range c.SrcV {
				if st := r.mq.Stream(v); st != nil {
					o.regAtDone++
				}
			}
			r.opMu.Unlock()
			s.Side("addpart %d/%d returned err=%v", c.ID, p.ID, err != nil)
		}()
	case "stop":
		go func() {
			err := r.mgr.StopReadCollection(ctx, info)
			r.opMu.Lock()
			o.done, o.err, o.doneAt = true, err, s.Step
			r.opMu.Unlock()
			s.Side("stop %d returned", c.ID)
		}()
		s.Probe("stop_issued")
	}
}

func (r *RigR) createDownstream(c *RColl, pre bool) {
	t := r.tgt
	t.mu.Lock()
	defer t.mu.Unlock()
	k := tkey(c.DB, c.Name)
	if t.Colls[k] != nil {
		return
	}
	tc := &TgtColl{DB: c.DB, Name: c.Name, ID: c.TgtID, VCh: append([]string(nil), c.TgtV...), Parts: map[string]*TgtPart{}, SrcID: c.ID}
	for _, p := range c.Parts {
		if p.Name == "_default" {
			tc.Parts[p.Name] = &TgtPart{ID: p.TgtID, Visible: true}
		} else if pre && p.PreTarget {
			tc.Parts[p.Name] = &TgtPart{ID: p.TgtID, Visible: true}
		}
	}
	t.Colls[k] = tc
}

func (r *RigR) recvEvent(ev *api.ReplicateAPIEvent) {
	s := r.sim
	r.noteEvents()
	appear := s.Step
	if r.evRecv < len(r.evAppear) {
		appear = r.evAppear[r.evRecv]
	}
	r.evRecv++
	e := &EmEvent{Step: s.Step, Appear: appear, Type: ev.EventType, DB: ev.ReplicateParam.Database, Task: ev.TaskID, MsgID: ev.MsgID}
	if ev.CollectionInfo != nil {
		e.Coll = ev.CollectionInfo.ID
		e.CName = ev.CollectionInfo.GetSchema().GetName()
	}
	if ev.PartitionInfo != nil {
		e.Part = ev.PartitionInfo.PartitionID
		e.PName = ev.PartitionInfo.PartitionName
	}
	if ev.ReplicateInfo != nil {
		e.Ts = ev.ReplicateInfo.MsgTimestamp
		e.IsRep = ev.ReplicateInfo.IsReplicate
	}
	if ev.Error != nil {
		e.Err = ev.Error.Error()
	}
	r.Events = append(r.Events, e)
	s.Side("event %s coll=%d part=%d ts=%d err=%q", ev.EventType.String(), e.Coll, e.Part, e.Ts, e.Err)
	c := r.sc.coll(e.Coll)
	switch ev.EventType {
	case api.ReplicateCreateCollection:
		if c != nil {
			r.createDownstream(c, false)
		}
	case api.ReplicateCreatePartition:
		if c != nil {
			r.tgt.mu.Lock()
			if tc := r.tgt.Colls[tkey(c.DB, c.Name)]; tc != nil {
				if p := c.part(e.Part); p != nil && tc.Parts[p.Name] == nil {
					tc.Parts[p.Name] = &TgtPart{ID: p.TgtID, Late: p.Late, Visible: p.Late == 0}
				}
			}
			r.tgt.mu.Unlock()
		}
	case api.ReplicateDropCollection:
		if c != nil {
			r.tgt.mu.Lock()
			delete(r.tgt.Colls, tkey(c.DB, c.Name))
			r.tgt.mu.Unlock()
		}
	case api.ReplicateDropPartition:
		if c != nil {
			r.tgt.mu.Lock()
			if tc := r.tgt.Colls[tkey(c.DB, c.Name)]; tc != nil {
				delete(tc.Parts, e.PName)
			}
			r.tgt.mu.Unlock()
		}
	default:
		r.errSeen = true
		s.Probe("error_event")
	}
}

func (r *RigR) recvPack(q string, m *api.ReplicateMsg) {
	s := r.sim
	p := &EmPack{Queue: q, Idx: r.perQ[q], Step: s.Step, CollID: m.CollectionID, CollName: m.CollectionName, SrcPCh: m.PChannelName, Task: m.TaskID}
	r.perQ[q]++
	if m.MsgPack != nil {
		p.Raw = m.MsgPack
		p.BeginTs, p.EndTs = m.MsgPack.BeginTs, m.MsgPack.EndTs
		p.StartPos, p.EndPos = m.MsgPack.StartPositions, m.MsgPack.EndPositions
		for _, x := range m.MsgPack.Msgs {
			p.Msgs = append(p.Msgs, summarize(x))
		}
	}
	r.Packs = append(r.Packs, p)
	nd := 0
	for _, x := range p.Msgs {
		if x.Type != "tick" {
			nd++
		}
	}
	s.Side("emitted q=%s coll=%d src=%s n=%d data=%d end=%d", q, p.CollID, p.SrcPCh, len(p.Msgs), nd, p.EndTs)
}

func summarize(x msgstream.TsMsg) *EmMsg {
	e := &EmMsg{Begin: x.BeginTs(), End: x.EndTs(), Raw: x, PosSeq: -1}
	if pos := x.Position(); pos != nil {
		e.PosCh, e.PosSeq, e.PosTs = pos.ChannelName, MsgIDToSeq(pos.MsgID), pos.Timestamp
	}
	switch m := x.(type) {
	case *msgstream.InsertMsg:
		e.Type, e.Tag, e.CollID, e.PartID, e.PartName, e.Shard, e.RowTs = "ins", m.Base.GetMsgID(), m.CollectionID, m.PartitionID, m.PartitionName, m.ShardName, m.Timestamps
	case *msgstream.DeleteMsg:
		e.Type, e.Tag, e.CollID, e.PartID, e.PartName, e.Shard, e.RowTs = "del", m.Base.GetMsgID(), m.CollectionID, m.PartitionID, m.PartitionName, m.ShardName, m.Timestamps
	case *msgstream.DropPartitionMsg:
		e.Type, e.Tag, e.CollID, e.PartID, e.PartName = "dropp", m.Base.GetMsgID(), m.CollectionID, m.PartitionID, m.PartitionName
	case *msgstream.DropCollectionMsg:
		e.Type, e.Tag, e.CollID = "dropc", m.Base.GetMsgID(), m.CollectionID
	case *msgstream.ImportMsg:
		e.Type, e.Tag, e.CollID, e.PartIDs = "imp", m.Base.GetMsgID(), m.CollectionID, append([]int64(nil), m.PartitionIDs...)
	case *msgstream.TimeTickMsg:
		e.Type = "tick"
		e.TickValue = m.Base.GetTimestamp()
	default:
		e.Type = "other:" + x.Type().String()
	}
	return e
}

// checkMappingStep: C16 invariants on the manager's channel assignment table after every step.
func (r *RigR) checkMappingStep() {
	s := r.sim
	table, srcKey, sc, tc := reader.VerifChannelTable(r.mgr)
	if table == nil {
		return
	}
	if r.mapSeen == nil {
		r.mapSeen = map[string]string{}
	}
	perValue := map[string]int{}
	for k, v := range table {
		if old, ok := r.mapSeen[k]; ok && old != v {
			s.Violate("C16", "assignment_changed", "channel %s was assigned to %s and is now assigned to %s", k, old, v)
		}
		r.mapSeen[k] = v
		perValue[v]++
	}
	for k := range r.mapSeen {
		if _, ok := table[k]; !ok {
			s.Violate("C16", "assignment_lost", "the assignment of channel %s disappeared", k)
		}
	}
	larger, smaller := sc, tc
	if tc > sc {
		larger, smaller = tc, sc
	}
	quota := 1
	if smaller > 0 {
		quota = (larger + smaller - 1) / smaller
	}
	for v, n := range perValue {
		if n > quota {
			side := "downstream"
			if !srcKey {
				side = "source"
			}
			s.Violate("C16", "quota", "%s channel %s serves %d channels of the other side; with %d source and %d downstream channels the limit is %d", side, v, n, sc, tc, quota)
		}
		if n == quota && quota > 1 {
			s.Probe("quota_reached")
		}
	}
	if len(table) >= 2 {
		s.Probe("two_or_more_assignments")
	}
	if sc != tc && sc != 0 {
		s.Probe("unequal_counts")
	}
}
