package sim

import (
	"context"
	"fmt"
	"sort"
	"strings"

	coreapi "github.com/zilliztech/milvus-cdc/core/api"
	coremeta "github.com/zilliztech/milvus-cdc/core/meta"
)

// C17: drop-message readiness accumulates across shards, persists, is removable.

func genC17(rng *Rng, sc *STScript) *STScript {
	if sc.Backend == "" || rng.Pct(25) {
		sc.Backend = Pick(rng, []string{"etcd", "mysql", "memory"})
	}
	sc.Roots = []string{Pick(rng, []string{"cdc", "by-dev/meta", "root_1"})}
	tasks := []string{"t1", "t2"}
	if rng.Pct(30) {
		tasks = []string{"t1", "t11"} // ids that are prefixes of one another
	}
	prefixIDs := rng.Pct(40) // message ids that are prefixes of one another (collection 4 / 41, partition 7-1 / 7-12)
	type msg struct {
		kind   string
		id     string
		shards []string
	}
	var msgs []msg
	for i := 0; i < rng.Range(1, 3); i++ {
		n := rng.Range(1, 5)
		var sh []string
		base := 0
		if rng.Pct(35) {
			base = 8 // dml_8, dml_9, dml_10, ...: shard order is not the lexicographic order of the names
		}
		for k := 0; k < n; k++ {
			sh = append(sh, fmt.Sprintf("dml_%d_%dv%d", base+k, 400+i, k))
		}
		if rng.Pct(25) {
			Shuffle(rng, sh) // the target list in any order
		}
		kind := Pick(rng, []string{"coll", "part"})
		id := fmt.Sprintf("drop-collection-%d", 400+i)
		if kind == "part" {
			id = fmt.Sprintf("drop-partition-%d-%d", 400+i, 9000+i)
		}
		if prefixIDs {
			id = fmt.Sprintf("drop-collection-%s", []string{"4", "41", "412"}[i])
			if kind == "part" {
				id = fmt.Sprintf("drop-partition-7-%s", []string{"1", "12", "123"}[i])
			}
		}
		msgs = append(msgs, msg{kind, id, sh})
	}
	n := rng.Range(4, 18)
	for i := 0; i < n; i++ {
		m := Pick(rng, msgs)
		op := STOp{Task: Pick(rng, tasks), Msg: m.id, Kind: m.kind, Shards: m.shards}
		switch r := rng.Intn(100); {
		case r < 70:
			op.K = "report"
			op.Shard = Pick(rng, m.shards)
		case r < 82:
			op.K = "remove"
		default:
			op.K = "reload"
		}
		sc.Ops = append(sc.Ops, op)
	}
	if sc.Backend != "memory" && rng.Pct(50) {
		sc.Faults = rng.Range(1, 3)
	}
	return sc
}

func runC17(s *Sim, sc *STScript) {
	ctx := context.Background()
	g := &seqGate{tape: s.Tape, budget: sc.Faults, fired: map[string]int{}, failAt: -1}
	var rs coreapi.ReplicateStore
	if sc.Backend == "memory" {
		rs = &memReplicateStore{m: map[string]coreapi.MetaMsg{}}
	} else {
		sys, _, _ := buildST(s, sc, g)
		rs = sys.rs[sc.Roots[0]]
	}
	impl, err := coremeta.NewReplicateMetaImpl(rs)
	if err != nil {
		HarnessFail(s.Plan, "replicate meta: %v", err)
	}
	defer func() {
		for k, v := range g.fired {
			s.Stats[k] += v
		}
	}()
	type key struct{ task, msg string }
	model := map[key]map[string]bool{}
	// after a store call that failed AFTER it was applied (ambiguous outcome) the store may hold what the failed update wrote
	// although the caller was told it failed: the store is then allowed either content until the key is written again or
	// memory is rebuilt from the store (then the model adopts what the store holds). A store call that failed BEFORE it was
	// applied allows nothing: memory, store and model must still agree exactly.
	ambigPut := map[key]map[string]bool{} // content the store may hold instead
	ambigDel := map[key]bool{}            // the store may have lost the record
	kinds := map[key]string{}
	targets := map[key][]string{}
	setStr := func(m map[string]bool) string {
		var ks []string
		for k := range m {
			ks = append(ks, k)
		}
		sort.Strings(ks)
		return strings.Join(ks, ",")
	}
	listStr := func(xs []string) string {
		ys := append([]string(nil), xs...)
		sort.Strings(ys)
		return strings.Join(ys, ",")
	}
	readMem := func(k key) (string, bool) {
		if kinds[k] == "part" {
			ms, err := impl.GetTaskDropPartitionMsg(ctx, k.task, k.msg)
			if err != nil || len(ms) == 0 {
				return "", false
			}
			return listStr(ms[0].Base.ReadyChannels), true
		}
		ms, err := impl.GetTaskDropCollectionMsg(ctx, k.task, k.msg)
		if err != nil || len(ms) == 0 {
			return "", false
		}
		return listStr(ms[0].Base.ReadyChannels), true
	}
	readStore := func(k key) (string, bool) {
		ms, err := rs.Get(ctx, coremeta.GetMetaKey(k.task, k.msg), false)
		if err != nil {
			HarnessFail(s.Plan, "store get: %v", err)
		}
		if len(ms) == 0 {
			return "", false
		}
		return listStr(ms[0].Base.ReadyChannels), true
	}
	checkAll := func(i int, what string) {
		var keys []key
		for k := range kinds {
			keys = append(keys, k)
		}
		sort.Slice(keys, func(a, b int) bool { return keys[a].task+keys[a].msg < keys[b].task+keys[b].msg })
		for _, k := range keys {
			want, wantOK := "", false
			if m, ok := model[k]; ok {
				want, wantOK = setStr(m), true
			}
			mem, memOK := readMem(k)
			st, stOK := readStore(k)
			if memOK != wantOK || (wantOK && mem != want) {
				s.Violate("C17", "memory_diverges", "after op #%d (%s): task=%s msg=%s in-memory ready set is %q (present=%v), the union of all reports is %q (present=%v)", i, what, k.task, k.msg, mem, memOK, want, wantOK)
			}
			if alt, ok := ambigPut[k]; ok && stOK && st == setStr(alt) {
				s.Probe("store_holds_ambiguous_write")
				continue
			}
			if ambigDel[k] && !stOK {
				s.Probe("store_lost_record_ambiguously")
				continue
			}
			if stOK != wantOK || (wantOK && st != want) {
				s.Violate("C17", "store_diverges", "after op #%d (%s): task=%s msg=%s stored ready set is %q (present=%v), the union of all reports is %q (present=%v)", i, what, k.task, k.msg, st, stOK, want, wantOK)
			}
		}
	}
	for i, op := range sc.Ops {
		k := key{op.Task, op.Msg}
		s.Step = i
		switch op.K {
		case "report":
			kinds[k] = op.Kind
			targets[k] = op.Shards
			if model[k] == nil {
				model[k] = map[string]bool{}
			}
			if model[k][op.Shard] {
				s.Probe("duplicate_report")
			}
			prev := map[string]bool{}
			for sh := range model[k] {
				prev[sh] = true
			}
			hadEntry := len(prev) > 0 || func() bool { _, ok := readMem(k); return ok }()
			model[k][op.Shard] = true
			fb, fa := g.fired["fault:store_err_before"], g.fired["fault:store_err_after"]
			g.enabled = g.budget > 0 && g.tape.Choose(3) == 0
			base := coreapi.BaseTaskMsg{TaskID: op.Task, MsgID: op.Msg, TargetChannels: append([]string(nil), op.Shards...), ReadyChannels: []string{op.Shard}}
			var ready bool
			var err error
			if op.Kind == "part" {
				ready, err = impl.UpdateTaskDropPartitionMsg(ctx, coreapi.TaskDropPartitionMsg{Base: base, DatabaseName: "default", CollectionName: "c", PartitionName: "p", DropTS: 77})
			} else {
				ready, err = impl.UpdateTaskDropCollectionMsg(ctx, coreapi.TaskDropCollectionMsg{Base: base, DatabaseName: "default", CollectionName: "c", DropTS: 77})
			}
			g.enabled = false
			before, after := g.fired["fault:store_err_before"] > fb, g.fired["fault:store_err_after"] > fa
			if err != nil && (before || after) {
				// the update failed because the store failed: the report does not count
				s.Probe("report_failed_by_store")
				if after {
					s.Probe("report_failed_ambiguously")
					if mem, ok := readMem(k); ok && mem == setStr(model[k]) {
						// the write was applied and memory kept the report as well: memory and store agree, the report counts
						s.Probe("ambiguous_report_kept")
						s.logf("%03d report task=%s msg=%s shard=%s -> store failure after the write was applied; memory kept the report", i, op.Task, op.Msg, op.Shard)
						break
					}
					ambigPut[k] = model[k]
				}
				model[k] = prev
				if !hadEntry {
					delete(model, k)
				}
				s.logf("%03d report task=%s msg=%s shard=%s -> store failure (applied=%v)", i, op.Task, op.Msg, op.Shard, after)
				break
			}
			if err == nil && (before || after) {
				s.Violate("C17", "store_error_swallowed", "op #%d report(%s,%s,%s): the store call failed but the update reported success", i, op.Task, op.Msg, op.Shard)
				return
			}
			if err != nil {
				s.Violate("C17", "update_error", "op #%d report(%s,%s,%s) failed: %v", i, op.Task, op.Msg, op.Shard, err)
				return
			}
			delete(ambigPut, k)
			delete(ambigDel, k)
			wantReady := len(model[k]) == len(op.Shards)
			if ready != wantReady {
				s.Violate("C17", "readiness", "op #%d report(task=%s msg=%s shard=%s): reported ready=%v, but %d of %d target shards have reported (%s)", i, op.Task, op.Msg, op.Shard, ready, len(model[k]), len(op.Shards), setStr(model[k]))
			}
			if len(model[k]) >= 3 {
				s.Probe("three_or_more_reports")
			}
			if wantReady {
				s.Probe("became_ready")
			}
			s.logf("%03d report task=%s msg=%s shard=%s -> ready=%v", i, op.Task, op.Msg, op.Shard, ready)
		case "remove":
			if _, known := kinds[k]; !known {
				kinds[k] = op.Kind
			}
			fb, fa := g.fired["fault:store_err_before"], g.fired["fault:store_err_after"]
			g.enabled = g.budget > 0 && g.tape.Choose(3) == 0
			err := impl.RemoveTaskMsg(ctx, op.Task, op.Msg)
			g.enabled = false
			before, after := g.fired["fault:store_err_before"] > fb, g.fired["fault:store_err_after"] > fa
			if err != nil && (before || after) {
				s.Probe("remove_failed_by_store")
				if after {
					ambigDel[k] = true
				}
				s.logf("%03d remove task=%s msg=%s -> store failure (applied=%v)", i, op.Task, op.Msg, after)
				break
			}
			if err != nil {
				s.Violate("C17", "remove_error", "op #%d remove(%s,%s) failed: %v", i, op.Task, op.Msg, err)
				return
			}
			delete(ambigPut, k)
			delete(ambigDel, k)
			if model[k] != nil {
				s.Probe("removed_existing_" + kinds[k])
			}
			delete(model, k)
			s.logf("%03d remove task=%s msg=%s", i, op.Task, op.Msg)
		case "reload":
			// crash point: a new in-memory object over the same store
			n, err := coremeta.NewReplicateMetaImpl(rs)
			if err != nil {
				HarnessFail(s.Plan, "reload: %v", err)
			}
			impl = n
			for k2 := range kinds {
				_, ap := ambigPut[k2]
				if !ap && !ambigDel[k2] {
					continue
				}
				// memory now is what the store holds: the model adopts the resolved outcome
				if ms, err := rs.Get(ctx, coremeta.GetMetaKey(k2.task, k2.msg), false); err == nil && len(ms) > 0 {
					model[k2] = map[string]bool{}
					for _, c := range ms[0].Base.ReadyChannels {
						model[k2][c] = true
					}
				} else {
					delete(model, k2)
				}
				delete(ambigPut, k2)
				delete(ambigDel, k2)
			}
			s.Probe("reload")
			s.logf("%03d reload", i)
		}
		checkAll(i, op.K)
		if len(s.Viol) > 0 {
			return
		}
	}
}
