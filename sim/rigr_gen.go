package sim

import (
	"fmt"
	"sort"
)

// ------------------------------------------------------------------ rig R script

type RKnobs struct {
	BufSize      int  `json:"buf"`
	TTIntervalMs int  `json:"tt_ms"`
	RetryTimes   int  `json:"retry_times"`
	InitBackoff  int  `json:"init_backoff"`
	MaxBackoff   int  `json:"max_backoff"`
	SrcNum       int  `json:"src_num"` // ReaderConfig.SourceChannelNum
	TgtNum       int  `json:"tgt_num"`
	Yields       bool `json:"yields"`
	BarrierYield bool `json:"barrier_yield"`
	MaxSteps     int  `json:"max_steps"`
	ClockWeight  int  `json:"clock_w"`
	DrainQueueW  int  `json:"drainq_w"`                // weight of draining an output queue
	EventCap     int  `json:"event_cap,omitempty"`     // capacity of the API event queue (0 = the shipped 10), hook H18
	EventDrainW  int  `json:"event_drain_w,omitempty"` // weight of receiving an API event (0 = 6): a small value is a server whose event loop is busy
	// ConcurrentStarts (C16, equal channel counts only): several StartReadCollection calls may be in flight at once
	ConcurrentStarts bool `json:"concurrent_starts,omitempty"`
}

type RPart struct {
	ID        int64  `json:"id"`
	Name      string `json:"name"`
	TgtID     int64  `json:"tgt_id"`
	CreateTs  uint64 `json:"create_ts"`
	PreTarget bool   `json:"pre_target"` // exists downstream before the run
	State     string `json:"state"`      // created | dropped (dropped at the source before the run)
	Late      int    `json:"late"`       // downstream id becomes visible only after this many partition queries
}

type RColl struct {
	ID       int64    `json:"id"`
	Name     string   `json:"name"`
	DB       string   `json:"db"`
	DBID     int64    `json:"dbid"`
	SrcV     []string `json:"srcv"`
	TgtV     []string `json:"tgtv"`
	TgtID    int64    `json:"tgt_id"`
	CreateTs uint64   `json:"create_ts"`
	Parts    []*RPart `json:"parts"`
	Pre      bool     `json:"pre"`      // exists downstream before the run
	State    string   `json:"state"`    // created | dropped
	SeekNil  bool     `json:"seek_nil"` // start without seek positions
	// ResumeTs, when set, is the time of the seek position (a checkpoint taken before a restart: everything up to it was
	// acknowledged downstream, the last closing tick on the collection's downstream channels was at least this)
	ResumeTs uint64 `json:"resume_ts,omitempty"`
	Task     string `json:"task"`
}

type REntry struct {
	Seq      int      `json:"seq"`
	Ts       uint64   `json:"ts"`
	Kind     string   `json:"k"` // tick ins del dropp dropc createc createp other
	Coll     int64    `json:"c,omitempty"`
	Shard    int      `json:"s,omitempty"`
	Part     int64    `json:"p,omitempty"`
	PartName string   `json:"pn,omitempty"`
	Rows     []int64  `json:"rows,omitempty"`
	Parts    []int64  `json:"parts,omitempty"` // Kind "imp": the source partition ids an import message names
	Tag      int64    `json:"tag,omitempty"`
	Op       *WDEvent `json:"op,omitempty"` // Kind "op": an operation message on the replicate channel
}

type ROp struct {
	Kind string `json:"k"` // start | addpart | stop
	Coll int64  `json:"c"`
	Part int64  `json:"p,omitempty"`
	// the op is offered to the scheduler only once the named pchannel has
	// published (delivered to any stream or passed) AfterSeq; -1 = from the start
	AfterRound int `json:"after_round"`
	// a start that is offered only after the start of this collection returned (0 = none)
	AfterColl int64 `json:"after_coll,omitempty"`
}

type RScript struct {
	Knobs  RKnobs               `json:"knobs"`
	SrcP   []string             `json:"srcp"`
	TgtP   []string             `json:"tgtp"`
	Colls  []*RColl             `json:"colls"`
	Log    map[string][]*REntry `json:"log"`
	Ops    []*ROp               `json:"ops"`
	Faults map[string]int       `json:"faults"`
}

func (s *RScript) coll(id int64) *RColl {
	for _, c := range s.Colls {
		if c.ID == id {
			return c
		}
	}
	return nil
}

func (c *RColl) part(id int64) *RPart {
	for _, p := range c.Parts {
		if p.ID == id {
			return p
		}
	}
	return nil
}

func (c *RColl) partByName(n string) *RPart {
	for _, p := range c.Parts {
		if p.Name == n {
			return p
		}
	}
	return nil
}

const tsBasePhysical = int64(1_700_000_000_000)

func hts(ms int64, logical int64) uint64 { return uint64((tsBasePhysical+ms)<<18 + logical) }

func vchan(p string, coll int64, idx int) string { return fmt.Sprintf("%s_%dv%d", p, coll, idx) }

// GenR generates a rig-R scenario. Everything is drawn from rng.
func GenR(rng *Rng, prop string, tier string) *RScript {
	s := &RScript{Log: map[string][]*REntry{}, Faults: map[string]int{}}
	k := &s.Knobs
	k.BufSize = Pick(rng, []int{64, 256}) // never full: a sender blocked on a full queue holds the channel RLock and parks others on a mutex, which a bubble cannot wait out
	k.TTIntervalMs = Pick(rng, []int{50, 200, 500, 2000})
	k.RetryTimes = rng.Range(12, 20)
	k.InitBackoff = 1
	k.MaxBackoff = Pick(rng, []int{1, 2})
	k.MaxSteps = 500
	k.ClockWeight = Pick(rng, []int{1, 2, 4})
	k.DrainQueueW = Pick(rng, []int{1, 3, 8})
	k.Yields = rng.Pct(35)
	k.BarrierYield = true

	nP := rng.Range(1, 3)
	nColl := rng.Range(1, 3)
	share := false
	manyToOne := false
	// fewerSrc (C01 only): fewer source than downstream channels (handlers are keyed by the downstream channel). A two-shard
	// collection creates one handler per downstream channel first; the other collections are single-shard and "foreign": each
	// lives on one source channel and on the downstream channel of the OTHER source channel's handler, so its stream is added to
	// a handler that was built for another source channel (tick-only packs are emitted there, data packs are forwarded to the
	// handler of its own source channel). Only the C01 rules are meaningful here (the routing of such placements is outside
	// C02's quantifier, DESIGN.md section 9, C01-4).
	fewerSrc := prop == "C01" && rng.Pct(15)
	switch prop {
	case "C03":
		k.Yields = rng.Pct(80)
		nColl = rng.Range(2, 3)
		nP = rng.Range(1, 2)
		share = true
		// more source channels than downstream channels: several channel handlers write one downstream channel and share its clock
		manyToOne = rng.Pct(35)
		if manyToOne {
			nP = rng.Range(2, 3)
		}
	case "C04", "C20":
		k.BarrierYield = true
		nP = rng.Range(1, 3)
		if prop == "C04" && rng.Pct(30) {
			k.EventCap = rng.Range(1, 2)
		}
	case "C16":
		nP = rng.Range(1, 4)
		nColl = rng.Range(2, 5)
	}
	if fewerSrc {
		nP = 2
		nColl = rng.Range(2, 3)
	}
	srcPrefix := Pick(rng, []string{"by-dev-rootcoord-dml", "src-dml"})
	tgtPrefix := Pick(rng, []string{"by-dev-rootcoord-dml", "tgt-rootcoord-dml", "a-dml"})
	for i := 0; i < nP; i++ {
		s.SrcP = append(s.SrcP, fmt.Sprintf("%s_%d", srcPrefix, i))
	}
	nT := nP
	if prop == "C16" {
		nT = rng.Range(1, 4)
		if rng.Pct(35) {
			// equal counts (the direct assignment path, no wait/forward rendezvous): starts may overlap
			nT = nP
			k.ConcurrentStarts = true
			k.Yields = true
		} else if rng.Pct(30) {
			// wider maps: counts whose smaller side is larger than the per-channel share (6:3, 5:2, 3:6 ...; seeded change C16-5)
			nP = rng.Range(3, 6)
			nT = rng.Range(2, 6)
			s.SrcP = s.SrcP[:0]
			for i := 0; i < nP; i++ {
				s.SrcP = append(s.SrcP, fmt.Sprintf("%s_%d", srcPrefix, i))
			}
		}
	}
	if manyToOne {
		nT = rng.Range(1, nP-1)
	}
	if fewerSrc {
		nT = rng.Range(3, 4)
	}
	for i := 0; i < nT; i++ {
		s.TgtP = append(s.TgtP, fmt.Sprintf("%s_%d", tgtPrefix, i))
	}
	if rng.Pct(50) || prop == "C16" || manyToOne || fewerSrc {
		k.SrcNum, k.TgtNum = nP, nT
	}
	for _, p := range s.SrcP {
		s.Log[p] = nil
	}
	free := rng.Pct(25) && prop != "C16" && !fewerSrc
	if prop == "C02" {
		free = rng.Pct(50)
	}
	// base placement: source channel i is served by downstream channel perm[i] (identity, or - in part of the runs with
	// free placement - a permutation, so that equally named channels of the two clusters are paired crosswise)
	perm := make([]int, max(nP, nT))
	for i := range perm {
		perm[i] = i
	}
	if free && nT == nP && nP > 1 && rng.Pct(50) {
		Shuffle(rng, perm[:nP])
	}

	ts := int64(1000) // ms offset; logical part varied below
	logical := int64(0)
	nextTs := func(sameMs bool) uint64 {
		if sameMs {
			logical++
		} else {
			ts += int64(rng.Range(1, 30))
			logical = int64(rng.Intn(3))
		}
		return hts(ts, logical)
	}
	seq := map[string]int{}
	app := func(p string, e *REntry) *REntry {
		seq[p]++
		e.Seq = seq[p]
		s.Log[p] = append(s.Log[p], e)
		return e
	}
	nextID := int64(4000 + rng.Intn(50)*10)
	newID := func() int64 { nextID += int64(rng.Range(1, 7)); return nextID }
	tgtNextID := int64(9000 + rng.Intn(50)*10)
	newTgtID := func() int64 { tgtNextID += int64(rng.Range(1, 7)); return tgtNextID }
	tag := int64(0)
	newTag := func() int64 { tag++; return tag }
	rowID := int64(100000)

	dbs := []string{"default", "default", "dbx"}
	usedTgt := map[string]bool{}
	usedSrc := map[string]bool{}
	alignedOn := map[int]int64{} // source pchannel index -> an aligned collection living there
	type live struct {
		c        *RColl
		dropped  bool
		liveP    map[int64]bool // partitions that may still receive DML
		prePart  []*RPart
		shardOfP map[string]int // source pchannel -> shard index
	}
	var lives []*live

	for ci := 0; ci < nColl; ci++ {
		c := &RColl{ID: newID(), Name: fmt.Sprintf("coll%c", 'a'+ci), State: "created", Task: "task1"}
		c.DB = Pick(rng, dbs)
		if c.DB == "default" {
			c.DBID = 1
		} else {
			c.DBID = 7
		}
		c.TgtID = newTgtID()
		nShard := rng.Range(1, min(2, nP))
		if prop == "C04" || prop == "C20" {
			nShard = rng.Range(1, min(3, nP))
		}
		if prop == "C16" {
			nShard = rng.Range(1, min(2, nP))
		}
		if fewerSrc {
			nShard = 1
			if ci == 0 {
				nShard = 2
			}
		}
		// source placement: a subset of distinct pchannels
		idx := make([]int, nP)
		for i := range idx {
			idx[i] = i
		}
		if share {
			// prefer pchannel 0 so that collections share it
			nShard = 1
			idx = []int{0}
			if nP > 1 && rng.Pct(30) {
				idx = []int{1}
			}
			if manyToOne {
				// one collection per source channel (its own handler), then at random
				idx = []int{ci % nP}
				if ci >= nP {
					idx = []int{rng.Intn(nP)}
				}
			}
		} else {
			Shuffle(rng, idx)
		}
		srcIdx := append([]int(nil), idx[:nShard]...)
		sort.Ints(srcIdx)
		var tgtIdx []int
		crossedAfter := int64(0)
		if free && !manyToOne && nShard == 1 && len(alignedOn) >= 2 && rng.Pct(60) {
			// a "crossed" single-shard collection: it lives on a source pchannel whose handler already
			// serves another downstream channel, so its packs take the forward path. To keep every
			// handler's downstream channel unique (the only deterministic configuration, see DESIGN 7)
			// it is started only after an aligned collection on the same source pchannel.
			var hosts []int
			for i := range s.SrcP {
				if alignedOn[i] != 0 {
					hosts = append(hosts, i)
				}
			}
			si := Pick(rng, hosts)
			var others []int
			for _, h := range hosts {
				if h != si {
					others = append(others, h)
				}
			}
			srcIdx = []int{si}
			tgtIdx = []int{perm[Pick(rng, others)]}
			crossedAfter = alignedOn[si]
		} else if manyToOne {
			tgtIdx = make([]int, len(srcIdx))
			for i, si := range srcIdx {
				tgtIdx[i] = si % nT
			}
		} else if fewerSrc {
			if ci == 0 {
				srcIdx = []int{0, 1}
				tgtIdx = []int{0, 1}
			} else {
				si := rng.Intn(2)
				srcIdx = []int{si}
				tgtIdx = []int{1 - si} // the downstream channel whose handler was built for the other source channel
				if rng.Pct(25) {
					tgtIdx = []int{si}
				}
				crossedAfter = s.Colls[0].ID
			}
		} else if prop == "C16" {
			// unequal channel counts: the downstream places the collection's shards on its own channels
			if nShard > nT {
				nShard = nT
				srcIdx = srcIdx[:nShard]
			}
			t := make([]int, nT)
			for i := range t {
				t[i] = i
			}
			Shuffle(rng, t)
			tgtIdx = append([]int(nil), t[:nShard]...)
			sort.Ints(tgtIdx)
		} else {
			tgtIdx = make([]int, len(srcIdx))
			for i, si := range srcIdx {
				tgtIdx[i] = perm[si]
			}
		}
		sh := map[string]int{}
		for i, si := range srcIdx {
			c.SrcV = append(c.SrcV, vchan(s.SrcP[si], c.ID, i))
			c.TgtV = append(c.TgtV, vchan(s.TgtP[tgtIdx[i]], c.TgtID, i))
			usedSrc[s.SrcP[si]] = true
			usedTgt[s.TgtP[tgtIdx[i]]] = true
			sh[s.SrcP[si]] = i
		}
		c.CreateTs = nextTs(false)
		c.Pre = rng.Pct(40)
		c.SeekNil = rng.Pct(25)
		// partitions: _default always
		c.Parts = append(c.Parts, &RPart{ID: newID(), Name: "_default", TgtID: newTgtID(), CreateTs: c.CreateTs, PreTarget: true, State: "created"})
		nPart := rng.Range(0, 2)
		l := &live{c: c, liveP: map[int64]bool{}, shardOfP: sh}
		l.liveP[c.Parts[0].ID] = true
		for pi := 0; pi < nPart; pi++ {
			p := &RPart{ID: newID(), Name: fmt.Sprintf("p%d_%d", ci, pi), TgtID: newTgtID(), CreateTs: nextTs(false), State: "created"}
			p.PreTarget = c.Pre && rng.Pct(50)
			if !p.PreTarget && rng.Pct(30) {
				p.Late = rng.Range(1, 3)
				if (prop == "C02" && rng.Pct(25)) || (prop == "C06" && rng.Pct(60)) {
					// the downstream id is not learned within the retry budget: nothing naming the partition may be emitted
					p.Late = 80
				}
			}
			c.Parts = append(c.Parts, p)
			l.liveP[p.ID] = true
		}
		if (prop == "C04" || prop == "C01") && rng.Pct(15) {
			// a partition dropped at the source before the run, absent downstream:
			// its old DML and its drop message are still in the stream
			p := &RPart{ID: newID(), Name: fmt.Sprintf("pd%d", ci), CreateTs: nextTs(false), State: "dropped"}
			if prop == "C04" && c.Pre && rng.Pct(50) {
				// ... but still present downstream: it was dropped at the source while the service was not running
				p.PreTarget = true
				p.TgtID = newTgtID()
			}
			c.Parts = append(c.Parts, p)
			l.prePart = append(l.prePart, p)
			l.liveP[p.ID] = true // DML is generated until the drop entry below
		}
		if prop == "C04" && !fewerSrc && !manyToOne && !free && rng.Pct(12) {
			// dropped at the source while the service was not running, still present downstream; the catalog lists it as
			// dropped and the streams are started from saved positions behind its drop message: the reader has to produce
			// the drop itself (no message of the collection is left to read). Aligned placements only: on the forward path
			// (crossed placement) the generated message is handed over on the handler's own channel and the barrier is not
			// signalled (thorough seed 175859459) - recorded as an open observation in DESIGN.md, not judged
			c.State, c.Pre, c.SeekNil = "dropped", true, false
			l.dropped = true
		}
		s.Colls = append(s.Colls, c)
		lives = append(lives, l)
		s.Ops = append(s.Ops, &ROp{Kind: "start", Coll: c.ID, AfterRound: -1, AfterColl: crossedAfter})
		if crossedAfter == 0 && prop != "C16" {
			for _, si := range srcIdx {
				if alignedOn[si] == 0 {
					alignedOn[si] = c.ID
				}
			}
		}
		for _, p := range c.Parts {
			if p.Name == "_default" && rng.Pct(50) {
				continue
			}
			s.Ops = append(s.Ops, &ROp{Kind: "addpart", Coll: c.ID, Part: p.ID, AfterRound: -1})
			if (prop == "C04" || prop == "C20") && rng.Pct(25) {
				// announced twice (listed at the start and seen by the watch): both announcements may be in progress at once
				s.Ops = append(s.Ops, &ROp{Kind: "addpart", Coll: c.ID, Part: p.ID, AfterRound: -1})
			}
		}
	}
	_ = usedSrc
	_ = usedTgt

	nRounds := rng.Range(4, 10)
	if tier == "thorough" {
		nRounds = rng.Range(4, 16)
	}
	if prop == "C16" {
		// the assignment table depends on the start offers and the wait/forward goroutines only; with
		// unequal counts several handlers share a downstream channel and forwardMsg picks among them in
		// Go map iteration order, which the simulator does not own - so no data flows in this check
		nRounds = 0
	}
	dropBias := 8
	if prop == "C04" || prop == "C20" {
		dropBias = 25
	}
	for r := 0; r < nRounds; r++ {
		// data
		nMsg := rng.Range(0, 5)
		for m := 0; m < nMsg; m++ {
			l := Pick(rng, lives)
			if l.dropped || len(l.c.SrcV) == 0 {
				continue
			}
			// pick a live partition
			var pids []int64
			for _, p := range l.c.Parts {
				if l.liveP[p.ID] {
					pids = append(pids, p.ID)
				}
			}
			if len(pids) == 0 {
				continue
			}
			p := l.c.part(Pick(rng, pids))
			shard := rng.Intn(len(l.c.SrcV))
			pch := physOf(l.c.SrcV[shard])
			kind := "ins"
			if rng.Pct(30) {
				kind = "del"
			}
			e := &REntry{Ts: nextTs(false), Kind: kind, Coll: l.c.ID, Shard: shard, Part: p.ID, PartName: p.Name, Tag: newTag()}
			n := rng.Range(1, 3)
			for i := 0; i < n; i++ {
				rowID++
				e.Rows = append(e.Rows, rowID)
			}
			if kind == "del" && rng.Pct(25) {
				e.PartName = "" // delete without a partition name (all partitions)
				e.Part = -1
			}
			app(pch, e)
			if rng.Pct(25) {
				// a second message with the same timestamp on the same shard (upsert style: delete+insert)
				k2 := "del"
				if kind == "del" {
					k2 = "ins"
				}
				e2 := &REntry{Ts: e.Ts, Kind: k2, Coll: l.c.ID, Shard: shard, Part: p.ID, PartName: p.Name, Tag: newTag()}
				rowID++
				e2.Rows = []int64{rowID}
				app(pch, e2)
			}
		}
		// a bulk-import message naming every live partition of a collection (C06 runs: a failure class of its own when one
		// of them cannot be resolved downstream)
		if prop == "C06" && rng.Pct(30) {
			l := Pick(rng, lives)
			if !l.dropped && len(l.c.SrcV) > 0 {
				var pids []int64
				for _, p := range l.c.Parts {
					if l.liveP[p.ID] {
						pids = append(pids, p.ID)
					}
				}
				shard := rng.Intn(len(l.c.SrcV))
				app(physOf(l.c.SrcV[shard]), &REntry{Ts: nextTs(false), Kind: "imp", Coll: l.c.ID, Shard: shard, Parts: pids, Tag: newTag()})
			}
		}
		// unsupported / filtered message kinds
		if rng.Pct(20) {
			l := Pick(rng, lives)
			if !l.dropped {
				t := nextTs(false)
				for _, v := range l.c.SrcV {
					app(physOf(v), &REntry{Ts: t, Kind: Pick(rng, []string{"createp", "createc", "other"}), Coll: l.c.ID, Tag: newTag(), PartName: "ignored"})
				}
			}
		}
		// create a partition at the source during the run
		if rng.Pct(12) {
			l := Pick(rng, lives)
			if !l.dropped && len(l.c.Parts) < 4 {
				t := nextTs(false)
				p := &RPart{ID: newID(), Name: fmt.Sprintf("pn%d_%d", l.c.ID%100, r), TgtID: newTgtID(), CreateTs: t, State: "created"}
				if rng.Pct(30) {
					p.Late = rng.Range(1, 2)
				}
				l.c.Parts = append(l.c.Parts, p)
				l.liveP[p.ID] = true
				for _, v := range l.c.SrcV {
					app(physOf(v), &REntry{Ts: t, Kind: "createp", Coll: l.c.ID, Part: p.ID, PartName: p.Name, Tag: newTag()})
				}
				s.Ops = append(s.Ops, &ROp{Kind: "addpart", Coll: l.c.ID, Part: p.ID, AfterRound: r})
				if (prop == "C04" || prop == "C20") && rng.Pct(20) {
					s.Ops = append(s.Ops, &ROp{Kind: "addpart", Coll: l.c.ID, Part: p.ID, AfterRound: r})
				}
			}
		}
		// drops
		if rng.Pct(dropBias) {
			l := Pick(rng, lives)
			if !l.dropped {
				if rng.Pct(55) {
					// drop a non-default live partition
					var cand []*RPart
					for _, p := range l.c.Parts {
						if l.liveP[p.ID] && p.Name != "_default" {
							cand = append(cand, p)
						}
					}
					if len(cand) > 0 {
						p := Pick(rng, cand)
						t := nextTs(false)
						tg := newTag()
						for _, v := range l.c.SrcV {
							app(physOf(v), &REntry{Ts: t, Kind: "dropp", Coll: l.c.ID, Part: p.ID, PartName: p.Name, Tag: tg})
						}
						delete(l.liveP, p.ID)
					}
				} else {
					t := nextTs(false)
					tg := newTag()
					for _, v := range l.c.SrcV {
						app(physOf(v), &REntry{Ts: t, Kind: "dropc", Coll: l.c.ID, Tag: tg})
					}
					l.dropped = true
				}
			}
		}
		// pre-dropped partitions get their drop entry early
		for _, l := range lives {
			if len(l.prePart) > 0 && !l.dropped && r >= 1 {
				p := l.prePart[0]
				l.prePart = l.prePart[1:]
				t := nextTs(false)
				tg := newTag()
				for _, v := range l.c.SrcV {
					app(physOf(v), &REntry{Ts: t, Kind: "dropp", Coll: l.c.ID, Part: p.ID, PartName: p.Name, Tag: tg})
				}
				delete(l.liveP, p.ID)
			}
		}
		// ticks (one per pchannel, same ts as rootcoord does; sometimes a double tick = empty pack)
		t := nextTs(false)
		for _, p := range s.SrcP {
			app(p, &REntry{Ts: t, Kind: "tick"})
		}
		if rng.Pct(20) {
			t = nextTs(false)
			for _, p := range s.SrcP {
				app(p, &REntry{Ts: t, Kind: "tick"})
			}
		}
	}
	if prop == "C06" && rng.Pct(50) {
		// a busy event loop on the server side and a short event queue: the reader has to report a message it cannot
		// process while the queue is full (queue_backpressure)
		k.EventCap = 1
		k.EventDrainW = 1
	}
	// a stop of a collection somewhere in C04 scenarios
	stopped := int64(0)
	if prop == "C04" && rng.Pct(30) {
		l := Pick(rng, lives)
		stopped = l.c.ID
		s.Ops = append(s.Ops, &ROp{Kind: "stop", Coll: l.c.ID, AfterRound: rng.Range(0, nRounds-1)})
	}
	// a collection announced twice (listed at the start and seen by the watch, or two watch notifications): the second
	// StartReadCollection may overlap the first or come any time later; it must have no further effect
	if ((prop == "C01" || prop == "C04") && rng.Pct(25)) || (prop == "C13" && rng.Pct(80)) {
		l := Pick(rng, lives)
		if l.c.ID != stopped && !l.dropped && l.c.State != "dropped" {
			// (only for collections that stay alive: a notification that is still under way when its collection is dropped
			// carries stale information, which the property does not speak about)
			s.Ops = append(s.Ops, &ROp{Kind: "start2", Coll: l.c.ID, AfterRound: rng.Range(-1, nRounds-1)})
		}
	}
	// fault budgets
	if rng.Pct(40) {
		s.Faults["tq_err"] = rng.Range(1, 3)
	}
	if rng.Pct(15) {
		s.Faults["reg_err"] = 1
	}
	if prop == "C03" {
		// resumed collections: the checkpoint is a tick somewhere in the first half of the history
		for _, c := range s.Colls {
			if c.SeekNil || len(c.SrcV) == 0 || !rng.Pct(50) {
				continue
			}
			var ticks []uint64
			for _, e := range s.Log[physOf(c.SrcV[0])] {
				if e.Kind == "tick" && e.Ts > c.CreateTs {
					ticks = append(ticks, e.Ts)
				}
			}
			if len(ticks) >= 4 {
				c.ResumeTs = ticks[rng.Range(0, len(ticks)/2)]
			}
		}
	}
	return s
}

func physOf(v string) string {
	for i := len(v) - 1; i >= 0; i-- {
		if v[i] == '_' {
			return v[:i]
		}
	}
	return v
}
