package sim

import (
	"context"
	"encoding/json"
	"errors"
	"fmt"
	"os"
	"sort"
	"strings"
	"sync"
	"testing"
	"testing/synctest"
	"time"

	"github.com/milvus-io/milvus-proto/go-api/v2/commonpb"
	"github.com/milvus-io/milvus-proto/go-api/v2/milvuspb"
	"github.com/milvus-io/milvus-proto/go-api/v2/msgpb"
	"github.com/milvus-io/milvus-proto/go-api/v2/schemapb"
	"github.com/milvus-io/milvus/pkg/mq/msgstream"
	"go.uber.org/zap/zapcore"

	"github.com/zilliztech/milvus-cdc/core/api"
	"github.com/zilliztech/milvus-cdc/core/config"
	cdclog "github.com/zilliztech/milvus-cdc/core/log"
	coremeta "github.com/zilliztech/milvus-cdc/core/meta"
	"github.com/zilliztech/milvus-cdc/core/pb"
	"github.com/zilliztech/milvus-cdc/core/util"
	"github.com/zilliztech/milvus-cdc/core/writer"
)

// ------------------------------------------------------------------ rig W, part 2: DDL / DCL operations (C08, C09, C20)

type WDEvent struct {
	Seq    int      `json:"seq"`
	Ts     uint64   `json:"ts"`
	Stream string   `json:"st"` // api | op
	Kind   string   `json:"k"`
	DB     string   `json:"db,omitempty"` // as it appears in the message ("" possible for the default database)
	Coll   string   `json:"c,omitempty"`
	Part   string   `json:"p,omitempty"`
	Parts  []string `json:"ps,omitempty"`
	Colls  []string `json:"cs,omitempty"`
	// source incarnations alive at Ts for the referenced objects (0 = none / not applicable)
	IncDB    int            `json:"idb,omitempty"`
	IncColl  int            `json:"ic,omitempty"`
	IncColls map[string]int `json:"ics,omitempty"`
	IncParts map[string]int `json:"ips,omitempty"`
	Name     string         `json:"n,omitempty"` // index / user / role
	Field    string         `json:"f,omitempty"`
	Bad      string         `json:"bad,omitempty"` // malformed pack: empty | two | unknown
	// PreRI: the source request already carries replication info (the source is itself a replication target):
	// 1 = an empty info, 2 = another replication's info with a stale time
	PreRI int `json:"pre_ri,omitempty"`
}

type WDScript struct {
	Mapping     map[string]string `json:"mapping"`
	ReplicateID string            `json:"replicate_id"`
	RangeMode   int               `json:"range_mode"`
	Events      []WDEvent         `json:"events"`
	Start       int               `json:"start"`     // events before this index happened before this CDC incarnation
	OpReplay    int               `json:"op_replay"` // how many op events before Start are re-delivered (persisted op checkpoint lags)
	Faults      map[string]int    `json:"faults"`
	RetryTimes  int               `json:"retry_times"`
}

func dbOf(d string) string {
	if d == "" {
		return "default"
	}
	return d
}

func GenWD(rng *Rng, prop string) *WDScript {
	sc := &WDScript{Mapping: map[string]string{}, Faults: map[string]int{}, RangeMode: rng.Intn(3), RetryTimes: 2}
	if rng.Pct(40) {
		sc.ReplicateID = "rid-7"
	}
	shape := rng.Intn(6)
	if prop == "C09" {
		shape = rng.Range(1, 5)
	}
	switch shape {
	case 1:
		sc.Mapping["default.c1"] = "default.c1x"
	case 2:
		sc.Mapping["dbx.*"] = "dby.*"
	case 3:
		sc.Mapping["dbx.c1"] = "dbz.k1"
		sc.Mapping["default.*"] = "dflt2.*"
	case 4:
		sc.Mapping["other.cc"] = "o2.cc"
	case 5:
		// exact and whole-database entry for the same source database
		sc.Mapping["dbx.c1"] = "dbz.k1"
		sc.Mapping["dbx.*"] = "dby.*"
	}
	// upstream catalog while generating
	type obj struct {
		inc   int
		alive bool
	}
	inc := 1
	dbs := map[string]*obj{"default": {inc: 1, alive: true}}
	colls := map[string]*obj{}
	parts := map[string]*obj{}
	ts := uint64(10_000)
	seq := 0
	add := func(e WDEvent) {
		seq++
		ts += uint64(rng.Range(1, 20))
		e.Seq, e.Ts = seq, ts
		if e.Stream == "op" && rng.Pct(15) {
			e.PreRI = rng.Range(1, 2)
		}
		sc.Events = append(sc.Events, e)
	}
	msgDB := func(d string) string {
		if d == "default" && rng.Pct(40) {
			return ""
		}
		return d
	}
	dbNames := []string{"default", "dbx"}
	collNames := []string{"c1", "c2"}
	partNames := []string{"p1", "p2"}
	n := rng.Range(8, 26)
	partBias := rng.Pct(30)
	if prop == "C20" {
		partBias = rng.Pct(60) // the other runs use several collections (lists of collections in one request)
	}
	for i := 0; i < n; i++ {
		d := Pick(rng, dbNames)
		c := Pick(rng, collNames)
		if partBias {
			// concentrate on one collection so that partitions are created, listed and dropped
			d, c = "default", "c1"
		}
		ck := d + "/" + c
		dbo := dbs[d]
		co := colls[ck]
		r := rng.Intn(100)
		if partBias && r >= 45 && r < 80 && rng.Pct(60) {
			r = 85 // more partition list operations
		}
		switch {
		case r < 8: // database create / drop
			if d == "default" {
				continue
			}
			if dbo == nil || !dbo.alive {
				inc++
				dbs[d] = &obj{inc: inc, alive: true}
				add(WDEvent{Stream: "op", Kind: "createdb", DB: d, IncDB: inc})
			} else if rng.Pct(50) {
				// a database can only be dropped when it is empty
				empty := true
				for k, o := range colls {
					if strings.HasPrefix(k, d+"/") && o.alive {
						empty = false
					}
				}
				if empty {
					add(WDEvent{Stream: "op", Kind: "dropdb", DB: d, IncDB: dbo.inc})
					dbo.alive = false
				}
			} else {
				add(WDEvent{Stream: "op", Kind: "alterdb", DB: d, IncDB: dbo.inc})
			}
		case r < 30: // collection create / drop
			if dbo == nil || !dbo.alive {
				continue
			}
			if co == nil || !co.alive {
				inc++
				colls[ck] = &obj{inc: inc, alive: true}
				add(WDEvent{Stream: "api", Kind: "createc", DB: d, Coll: c, IncDB: dbo.inc, IncColl: inc})
			} else {
				add(WDEvent{Stream: "api", Kind: "dropc", DB: d, Coll: c, IncDB: dbo.inc, IncColl: co.inc})
				co.alive = false
				for k, o := range parts {
					if strings.HasPrefix(k, ck+"/") {
						o.alive = false
					}
				}
			}
		case r < 45: // partition create / drop
			if co == nil || !co.alive {
				continue
			}
			p := Pick(rng, partNames)
			pk := ck + "/" + p
			po := parts[pk]
			if po == nil || !po.alive {
				inc++
				parts[pk] = &obj{inc: inc, alive: true}
				add(WDEvent{Stream: "api", Kind: "createp", DB: d, Coll: c, Part: p, IncDB: dbo.inc, IncColl: co.inc, IncParts: map[string]int{p: inc}})
			} else {
				add(WDEvent{Stream: "api", Kind: "dropp", DB: d, Coll: c, Part: p, IncDB: dbo.inc, IncColl: co.inc, IncParts: map[string]int{p: po.inc}})
				po.alive = false
			}
		case r < 80: // collection level op message
			if co == nil || !co.alive {
				continue
			}
			k := Pick(rng, []string{"createidx", "dropidx", "alteridx", "loadc", "releasec", "flush"})
			e := WDEvent{Stream: "op", Kind: k, DB: msgDB(d), Coll: c, IncDB: dbo.inc, IncColl: co.inc, Name: fmt.Sprintf("idx%d", rng.Intn(3)), Field: "vec"}
			if k == "flush" {
				e.Colls = []string{c}
				e.IncColls = map[string]int{c: co.inc}
				da, _ := refMap(sc.Mapping, d, c)
				for _, other := range collNames {
					if other == c {
						continue
					}
					db2, _ := refMap(sc.Mapping, d, other)
					if oo := colls[d+"/"+other]; oo != nil && oo.alive && da == db2 && rng.Pct(70) {
						e.Colls = append(e.Colls, other)
						e.IncColls[other] = oo.inc
					}
				}
				if len(e.Colls) > 1 && rng.Bool() {
					e.Colls[0], e.Colls[len(e.Colls)-1] = e.Colls[len(e.Colls)-1], e.Colls[0]
				}
			}
			add(e)
		case r < 92: // partition list op message
			if co == nil || !co.alive {
				continue
			}
			var live []string
			ips := map[string]int{}
			for _, p := range partNames {
				if po := parts[ck+"/"+p]; po != nil && po.alive {
					live = append(live, p)
					ips[p] = po.inc
				}
			}
			if len(live) == 0 {
				continue
			}
			add(WDEvent{Stream: "op", Kind: Pick(rng, []string{"loadp", "releasep"}), DB: msgDB(d), Coll: c, Parts: live, IncDB: dbo.inc, IncColl: co.inc, IncParts: ips})
		default: // RBAC
			add(WDEvent{Stream: "op", Kind: Pick(rng, []string{"createuser", "deleteuser", "updateuser", "createrole", "droprole", "userrole", "privilege"}), Name: fmt.Sprintf("u%d", rng.Intn(3))})
		}
	}
	if rng.Pct(25) {
		add(WDEvent{Stream: "op", Kind: "createidx", Bad: Pick(rng, []string{"empty", "two", "unknown"}), DB: "default", Coll: "c1"})
	}
	if rng.Pct(60) && len(sc.Events) > 4 {
		sc.Start = rng.Range(1, len(sc.Events)/2)
		sc.OpReplay = rng.Range(0, 4)
	}
	if rng.Pct(35) {
		sc.Faults["ddl_reject_before"] = rng.Range(1, 2)
	}
	if rng.Pct(20) {
		sc.Faults["ddl_reject_after"] = 1
	}
	return sc
}

// ---- simulated downstream at the api.DataHandler level

type wdColl struct {
	inc   int
	parts map[string]int
}

type wdCall struct {
	Kind   string
	RouteD string // param.Database: the database the call is routed to
	DB     string // database named in the request (if any)
	Coll   string
	Colls  []string
	Part   string
	Parts  []string
	Name   string
	Field  string
	Ts     uint64
	IsRep  bool
	HasInf bool
	Ev     *WDEvent
	Err    bool
	Extra  any
}

type wdDown struct {
	api.DefaultDataHandler
	s     *Sim
	sc    *WDScript
	mu    sync.Mutex
	dbs   map[string]int
	colls map[string]*wdColl // mapped db/coll
	calls []*wdCall
}

type evKey struct{}

func (d *wdDown) ev(ctx context.Context) *WDEvent {
	e, _ := ctx.Value(evKey{}).(*WDEvent)
	return e
}

var errWDReject = errors.New("sim: rpc error: downstream rejected the request")

// do parks the call, applies fault outcomes and runs apply under the lock.
func (d *wdDown) do(ctx context.Context, c *wdCall, mutating bool, apply func() error) error {
	c.Ev = d.ev(ctx)
	key := fmt.Sprintf("%s:%s/%s", c.Kind, c.RouteD, c.Coll)
	kind := "ddl"
	if !mutating {
		kind = "probe"
	}
	o := d.s.Park(ctx, kind, key, nil)
	if o.CtxErr != nil {
		return o.CtxErr
	}
	d.mu.Lock()
	defer d.mu.Unlock()
	d.calls = append(d.calls, c)
	if o.Fault == "ddl_reject_before" {
		c.Err = true
		return errWDReject
	}
	err := apply()
	if err != nil {
		c.Err = true
		return err
	}
	if o.Fault == "ddl_reject_after" {
		return errWDReject
	}
	return nil
}

func repInfo(b *commonpb.MsgBase) (uint64, bool, bool) {
	if b == nil || b.ReplicateInfo == nil {
		return 0, false, false
	}
	return b.ReplicateInfo.MsgTimestamp, b.ReplicateInfo.IsReplicate, true
}

func (d *wdDown) collOf(routeDB, coll string) (*wdColl, error) {
	db := dbOf(routeDB)
	if _, ok := d.dbs[db]; !ok {
		return nil, fmt.Errorf("database not found[database=%s]", db)
	}
	c := d.colls[db+"/"+coll]
	if c == nil {
		return nil, fmt.Errorf("collection not found[database=%s][collection=%s]", db, coll)
	}
	return c, nil
}

func (d *wdDown) CreateCollection(ctx context.Context, p *api.CreateCollectionParam) error {
	ts, rep, has := repInfo(p.Base)
	c := &wdCall{Kind: "createc", RouteD: p.Database, Coll: p.Schema.CollectionName, Ts: ts, IsRep: rep, HasInf: has, Extra: p}
	return d.do(ctx, c, true, func() error {
		db := dbOf(p.Database)
		if _, ok := d.dbs[db]; !ok {
			return fmt.Errorf("database not found[database=%s]", db)
		}
		if d.colls[db+"/"+c.Coll] != nil {
			return nil // describe-first: already exists
		}
		inc := 0
		if c.Ev != nil {
			inc = c.Ev.IncColl
		}
		d.colls[db+"/"+c.Coll] = &wdColl{inc: inc, parts: map[string]int{}}
		return nil
	})
}

func (d *wdDown) DropCollection(ctx context.Context, p *api.DropCollectionParam) error {
	ts, rep, has := repInfo(p.Base)
	c := &wdCall{Kind: "dropc", RouteD: p.Database, Coll: p.CollectionName, Ts: ts, IsRep: rep, HasInf: has}
	return d.do(ctx, c, true, func() error {
		// dropping what does not exist succeeds (Milvus drops are idempotent)
		delete(d.colls, dbOf(p.Database)+"/"+p.CollectionName)
		return nil
	})
}

func (d *wdDown) CreatePartition(ctx context.Context, p *api.CreatePartitionParam) error {
	ts, rep, has := repInfo(p.Base)
	c := &wdCall{Kind: "createp", RouteD: p.Database, Coll: p.CollectionName, Part: p.PartitionName, Ts: ts, IsRep: rep, HasInf: has}
	return d.do(ctx, c, true, func() error {
		co, err := d.collOf(p.Database, p.CollectionName)
		if err != nil {
			return err
		}
		if _, ok := co.parts[p.PartitionName]; ok {
			return nil
		}
		inc := 0
		if c.Ev != nil {
			inc = c.Ev.IncParts[c.Ev.Part]
		}
		co.parts[p.PartitionName] = inc
		return nil
	})
}

func (d *wdDown) DropPartition(ctx context.Context, p *api.DropPartitionParam) error {
	ts, rep, has := repInfo(p.Base)
	c := &wdCall{Kind: "dropp", RouteD: p.Database, Coll: p.CollectionName, Part: p.PartitionName, Ts: ts, IsRep: rep, HasInf: has}
	return d.do(ctx, c, true, func() error {
		co, err := d.collOf(p.Database, p.CollectionName)
		if err != nil {
			return err
		}
		delete(co.parts, p.PartitionName)
		return nil
	})
}

func (d *wdDown) collOp(ctx context.Context, kind, route, reqDB, coll string, b *commonpb.MsgBase, fill func(*wdCall)) error {
	ts, rep, has := repInfo(b)
	c := &wdCall{Kind: kind, RouteD: route, DB: reqDB, Coll: coll, Ts: ts, IsRep: rep, HasInf: has}
	if fill != nil {
		fill(c)
	}
	return d.do(ctx, c, true, func() error {
		co, err := d.collOf(route, coll)
		if err != nil {
			return err
		}
		for _, pn := range c.Parts {
			if _, ok := co.parts[pn]; !ok {
				return fmt.Errorf("partition not found[partition=%s]", pn)
			}
		}
		return nil
	})
}

func (d *wdDown) CreateIndex(ctx context.Context, p *api.CreateIndexParam) error {
	return d.collOp(ctx, "createidx", p.Database, p.GetDbName(), p.GetCollectionName(), p.GetBase(), func(c *wdCall) { c.Name, c.Field = p.GetIndexName(), p.GetFieldName() })
}
func (d *wdDown) DropIndex(ctx context.Context, p *api.DropIndexParam) error {
	return d.collOp(ctx, "dropidx", p.Database, p.GetDbName(), p.GetCollectionName(), p.GetBase(), func(c *wdCall) { c.Name, c.Field = p.GetIndexName(), p.GetFieldName() })
}
func (d *wdDown) AlterIndex(ctx context.Context, p *api.AlterIndexParam) error {
	return d.collOp(ctx, "alteridx", p.Database, p.GetDbName(), p.GetCollectionName(), p.GetBase(), func(c *wdCall) { c.Name = p.GetIndexName(); c.Extra = "dbname-routed" })
}
func (d *wdDown) LoadCollection(ctx context.Context, p *api.LoadCollectionParam) error {
	return d.collOp(ctx, "loadc", p.Database, p.GetDbName(), p.GetCollectionName(), p.GetBase(), nil)
}
func (d *wdDown) ReleaseCollection(ctx context.Context, p *api.ReleaseCollectionParam) error {
	return d.collOp(ctx, "releasec", p.Database, p.GetDbName(), p.GetCollectionName(), p.GetBase(), nil)
}
func (d *wdDown) LoadPartitions(ctx context.Context, p *api.LoadPartitionsParam) error {
	return d.collOp(ctx, "loadp", p.Database, p.GetDbName(), p.GetCollectionName(), p.GetBase(), func(c *wdCall) { c.Parts = append([]string(nil), p.GetPartitionNames()...) })
}
func (d *wdDown) ReleasePartitions(ctx context.Context, p *api.ReleasePartitionsParam) error {
	return d.collOp(ctx, "releasep", p.Database, p.GetDbName(), p.GetCollectionName(), p.GetBase(), func(c *wdCall) { c.Parts = append([]string(nil), p.GetPartitionNames()...) })
}

func (d *wdDown) Flush(ctx context.Context, p *api.FlushParam) error {
	ts, rep, has := repInfo(p.GetBase())
	c := &wdCall{Kind: "flush", RouteD: p.Database, DB: p.GetDbName(), Colls: append([]string(nil), p.GetCollectionNames()...), Ts: ts, IsRep: rep, HasInf: has}
	if len(c.Colls) > 0 {
		c.Coll = c.Colls[0]
	}
	return d.do(ctx, c, true, func() error {
		for _, cn := range c.Colls {
			if _, err := d.collOf(p.Database, cn); err != nil {
				return err
			}
		}
		return nil
	})
}

func (d *wdDown) CreateDatabase(ctx context.Context, p *api.CreateDatabaseParam) error {
	ts, rep, has := repInfo(p.GetBase())
	c := &wdCall{Kind: "createdb", RouteD: p.Database, DB: p.GetDbName(), Ts: ts, IsRep: rep, HasInf: has}
	return d.do(ctx, c, true, func() error {
		if _, ok := d.dbs[p.GetDbName()]; ok {
			return nil
		}
		inc := 0
		if c.Ev != nil {
			inc = c.Ev.IncDB
		}
		d.dbs[p.GetDbName()] = inc
		return nil
	})
}

func (d *wdDown) DropDatabase(ctx context.Context, p *api.DropDatabaseParam) error {
	ts, rep, has := repInfo(p.GetBase())
	c := &wdCall{Kind: "dropdb", RouteD: p.Database, DB: p.GetDbName(), Ts: ts, IsRep: rep, HasInf: has}
	return d.do(ctx, c, true, func() error {
		// Milvus refuses to drop a database that still holds collections (the drop of a collection, which travels on the
		// other stream, may not have arrived yet): the operation fails and is delivered again, like after an injected rejection
		for k := range d.colls {
			if strings.HasPrefix(k, p.GetDbName()+"/") {
				d.s.Stat("fault:db_not_empty")
				return fmt.Errorf("database is not empty[database=%s]", p.GetDbName())
			}
		}
		delete(d.dbs, p.GetDbName())
		return nil
	})
}

func (d *wdDown) AlterDatabase(ctx context.Context, p *api.AlterDatabaseParam) error {
	ts, rep, has := repInfo(p.GetBase())
	c := &wdCall{Kind: "alterdb", RouteD: p.Database, DB: p.GetDbName(), Ts: ts, IsRep: rep, HasInf: has}
	return d.do(ctx, c, true, func() error {
		if _, ok := d.dbs[p.GetDbName()]; !ok {
			return fmt.Errorf("database not found[database=%s]", p.GetDbName())
		}
		return nil
	})
}

func (d *wdDown) rbac(ctx context.Context, kind, name string, b *commonpb.MsgBase, extra any) error {
	ts, rep, has := repInfo(b)
	c := &wdCall{Kind: kind, Name: name, Ts: ts, IsRep: rep, HasInf: has, Extra: extra}
	return d.do(ctx, c, true, func() error { return nil })
}
func (d *wdDown) CreateUser(ctx context.Context, p *api.CreateUserParam) error {
	return d.rbac(ctx, "createuser", p.GetUsername(), p.GetBase(), p.GetPassword())
}
func (d *wdDown) DeleteUser(ctx context.Context, p *api.DeleteUserParam) error {
	return d.rbac(ctx, "deleteuser", p.GetUsername(), p.GetBase(), nil)
}
func (d *wdDown) UpdateUser(ctx context.Context, p *api.UpdateUserParam) error {
	return d.rbac(ctx, "updateuser", p.GetUsername(), p.GetBase(), p.GetOldPassword()+">"+p.GetNewPassword())
}
func (d *wdDown) CreateRole(ctx context.Context, p *api.CreateRoleParam) error {
	return d.rbac(ctx, "createrole", p.GetEntity().GetName(), p.GetBase(), nil)
}
func (d *wdDown) DropRole(ctx context.Context, p *api.DropRoleParam) error {
	return d.rbac(ctx, "droprole", p.GetRoleName(), p.GetBase(), nil)
}
func (d *wdDown) OperateUserRole(ctx context.Context, p *api.OperateUserRoleParam) error {
	return d.rbac(ctx, "userrole", p.GetUsername(), p.GetBase(), p.GetRoleName()+":"+p.GetType().String())
}
func (d *wdDown) OperatePrivilege(ctx context.Context, p *api.OperatePrivilegeParam) error {
	return d.rbac(ctx, "privilege", p.GetEntity().GetRole().GetName(), p.GetBase(), p.GetEntity().GetGrantor().GetPrivilege().GetName()+":"+p.GetType().String())
}

func (d *wdDown) DescribeCollection(ctx context.Context, p *api.DescribeCollectionParam) error {
	c := &wdCall{Kind: "desc_coll", RouteD: p.Database, Coll: p.Name}
	return d.do(ctx, c, false, func() error { _, err := d.collOf(p.Database, p.Name); return err })
}
func (d *wdDown) DescribeDatabase(ctx context.Context, p *api.DescribeDatabaseParam) error {
	c := &wdCall{Kind: "desc_db", RouteD: p.Database, DB: p.Name}
	return d.do(ctx, c, false, func() error {
		if _, ok := d.dbs[p.Name]; !ok {
			return fmt.Errorf("database not found[database=%s]", p.Name)
		}
		return nil
	})
}
func (d *wdDown) DescribePartition(ctx context.Context, p *api.DescribePartitionParam) error {
	c := &wdCall{Kind: "desc_part", RouteD: p.Database, Coll: p.CollectionName, Part: p.PartitionName}
	return d.do(ctx, c, false, func() error {
		co, err := d.collOf(p.Database, p.CollectionName)
		if err != nil {
			return err
		}
		if _, ok := co.parts[p.PartitionName]; !ok {
			return fmt.Errorf("partition not found[partition=%s]", p.PartitionName)
		}
		return nil
	})
}

// ---- building the writer inputs

func wdSchema(name string) *schemapb.CollectionSchema {
	return &schemapb.CollectionSchema{Name: name, Description: "d-" + name, AutoID: false, Fields: []*schemapb.FieldSchema{
		{FieldID: 100, Name: "pk", IsPrimaryKey: true, DataType: schemapb.DataType_Int64},
		{FieldID: 101, Name: "vec", DataType: schemapb.DataType_FloatVector, TypeParams: []*commonpb.KeyValuePair{{Key: "dim", Value: "4"}}},
	}}
}

func wdAPIEvent(e *WDEvent) *api.ReplicateAPIEvent {
	ev := &api.ReplicateAPIEvent{TaskID: "task1", ReplicateInfo: &commonpb.ReplicateInfo{IsReplicate: true, MsgTimestamp: e.Ts}, ReplicateParam: api.ReplicateParam{Database: e.DB},
		CollectionInfo: &pb.CollectionInfo{ID: int64(1000 + e.IncColl), Schema: wdSchema(e.Coll), ShardsNum: 2, ConsistencyLevel: commonpb.ConsistencyLevel_Bounded, CreateTime: e.Ts,
			Properties: []*commonpb.KeyValuePair{{Key: "collection.ttl.seconds", Value: "60"}}}}
	switch e.Kind {
	case "createc":
		ev.EventType = api.ReplicateCreateCollection
	case "dropc":
		ev.EventType = api.ReplicateDropCollection
		ev.MsgID = api.GetDropCollectionMsgID(int64(1000 + e.IncColl))
	case "createp":
		ev.EventType = api.ReplicateCreatePartition
		ev.PartitionInfo = &pb.PartitionInfo{PartitionID: int64(2000 + e.IncParts[e.Part]), PartitionName: e.Part, PartitionCreatedTimestamp: e.Ts, CollectionId: int64(1000 + e.IncColl)}
	case "dropp":
		ev.EventType = api.ReplicateDropPartition
		ev.PartitionInfo = &pb.PartitionInfo{PartitionID: int64(2000 + e.IncParts[e.Part]), PartitionName: e.Part, CollectionId: int64(1000 + e.IncColl)}
		ev.MsgID = api.GetDropPartitionMsgID(int64(1000+e.IncColl), int64(2000+e.IncParts[e.Part]))
	}
	return ev
}

func wdOpMsg(e *WDEvent) msgstream.TsMsg {
	base := msgstream.BaseMsg{BeginTimestamp: e.Ts, EndTimestamp: e.Ts, HashValues: []uint32{0}}
	mb := func(t commonpb.MsgType) *commonpb.MsgBase {
		b := &commonpb.MsgBase{MsgType: t, Timestamp: e.Ts, SourceID: 1, MsgID: int64(e.Seq)}
		switch e.PreRI {
		case 1:
			b.ReplicateInfo = &commonpb.ReplicateInfo{}
		case 2:
			b.ReplicateInfo = &commonpb.ReplicateInfo{IsReplicate: true, ReplicateID: "another-replication", MsgTimestamp: 1}
		}
		return b
	}
	switch e.Kind {
	case "createdb":
		return &msgstream.CreateDatabaseMsg{BaseMsg: base, CreateDatabaseRequest: &milvuspb.CreateDatabaseRequest{Base: mb(commonpb.MsgType_CreateDatabase), DbName: e.DB}}
	case "dropdb":
		return &msgstream.DropDatabaseMsg{BaseMsg: base, DropDatabaseRequest: &milvuspb.DropDatabaseRequest{Base: mb(commonpb.MsgType_DropDatabase), DbName: e.DB}}
	case "alterdb":
		return &msgstream.AlterDatabaseMsg{BaseMsg: base, AlterDatabaseRequest: &milvuspb.AlterDatabaseRequest{Base: mb(commonpb.MsgType_AlterDatabase), DbName: e.DB, Properties: []*commonpb.KeyValuePair{{Key: "database.replica.number", Value: "2"}}}}
	case "flush":
		return &msgstream.FlushMsg{BaseMsg: base, FlushRequest: &milvuspb.FlushRequest{Base: mb(commonpb.MsgType_Flush), DbName: e.DB, CollectionNames: append([]string(nil), e.Colls...)}}
	case "createidx":
		return &msgstream.CreateIndexMsg{BaseMsg: base, CreateIndexRequest: &milvuspb.CreateIndexRequest{Base: mb(commonpb.MsgType_CreateIndex), DbName: e.DB, CollectionName: e.Coll, FieldName: e.Field, IndexName: e.Name,
			ExtraParams: []*commonpb.KeyValuePair{{Key: "index_type", Value: "HNSW"}, {Key: "M", Value: fmt.Sprint(8 + e.Seq%5)}}}}
	case "dropidx":
		return &msgstream.DropIndexMsg{BaseMsg: base, DropIndexRequest: &milvuspb.DropIndexRequest{Base: mb(commonpb.MsgType_DropIndex), DbName: e.DB, CollectionName: e.Coll, FieldName: e.Field, IndexName: e.Name}}
	case "alteridx":
		return &msgstream.AlterIndexMsg{BaseMsg: base, AlterIndexRequest: &milvuspb.AlterIndexRequest{Base: mb(commonpb.MsgType_AlterIndex), DbName: e.DB, CollectionName: e.Coll, IndexName: e.Name, ExtraParams: []*commonpb.KeyValuePair{{Key: "mmap.enabled", Value: "true"}}}}
	case "loadc":
		return &msgstream.LoadCollectionMsg{BaseMsg: base, LoadCollectionRequest: &milvuspb.LoadCollectionRequest{Base: mb(commonpb.MsgType_LoadCollection), DbName: e.DB, CollectionName: e.Coll, ReplicaNumber: int32(1 + e.Seq%2)}}
	case "releasec":
		return &msgstream.ReleaseCollectionMsg{BaseMsg: base, ReleaseCollectionRequest: &milvuspb.ReleaseCollectionRequest{Base: mb(commonpb.MsgType_ReleaseCollection), DbName: e.DB, CollectionName: e.Coll}}
	case "loadp":
		return &msgstream.LoadPartitionsMsg{BaseMsg: base, LoadPartitionsRequest: &milvuspb.LoadPartitionsRequest{Base: mb(commonpb.MsgType_LoadPartitions), DbName: e.DB, CollectionName: e.Coll, PartitionNames: append([]string(nil), e.Parts...), ReplicaNumber: int32(1 + e.Seq%2)}}
	case "releasep":
		return &msgstream.ReleasePartitionsMsg{BaseMsg: base, ReleasePartitionsRequest: &milvuspb.ReleasePartitionsRequest{Base: mb(commonpb.MsgType_ReleasePartitions), DbName: e.DB, CollectionName: e.Coll, PartitionNames: append([]string(nil), e.Parts...)}}
	case "createuser":
		return &msgstream.CreateUserMsg{BaseMsg: base, CreateCredentialRequest: &milvuspb.CreateCredentialRequest{Base: mb(commonpb.MsgType_CreateCredential), Username: e.Name, Password: "cHdkMQ=="}}
	case "deleteuser":
		return &msgstream.DeleteUserMsg{BaseMsg: base, DeleteCredentialRequest: &milvuspb.DeleteCredentialRequest{Base: mb(commonpb.MsgType_DeleteCredential), Username: e.Name}}
	case "updateuser":
		return &msgstream.UpdateUserMsg{BaseMsg: base, UpdateCredentialRequest: &milvuspb.UpdateCredentialRequest{Base: mb(commonpb.MsgType_UpdateCredential), Username: e.Name, OldPassword: "b2xk", NewPassword: "bmV3"}}
	case "createrole":
		return &msgstream.CreateRoleMsg{BaseMsg: base, CreateRoleRequest: &milvuspb.CreateRoleRequest{Base: mb(commonpb.MsgType_CreateRole), Entity: &milvuspb.RoleEntity{Name: e.Name}}}
	case "droprole":
		return &msgstream.DropRoleMsg{BaseMsg: base, DropRoleRequest: &milvuspb.DropRoleRequest{Base: mb(commonpb.MsgType_DropRole), RoleName: e.Name}}
	case "userrole":
		return &msgstream.OperateUserRoleMsg{BaseMsg: base, OperateUserRoleRequest: &milvuspb.OperateUserRoleRequest{Base: mb(commonpb.MsgType_OperateUserRole), Username: e.Name, RoleName: "r-" + e.Name, Type: milvuspb.OperateUserRoleType_AddUserToRole}}
	case "privilege":
		return &msgstream.OperatePrivilegeMsg{BaseMsg: base, OperatePrivilegeRequest: &milvuspb.OperatePrivilegeRequest{Base: mb(commonpb.MsgType_OperatePrivilege), Type: milvuspb.OperatePrivilegeType_Grant,
			Entity: &milvuspb.GrantEntity{Role: &milvuspb.RoleEntity{Name: e.Name}, ObjectName: "c1", Grantor: &milvuspb.GrantorEntity{Privilege: &milvuspb.PrivilegeEntity{Name: "Query"}}}}}
	}
	return nil
}

func wdPack(e *WDEvent) *msgstream.MsgPack {
	pos := &msgpb.MsgPosition{ChannelName: "by-dev-replicate-msg", MsgID: SeqToMsgID(e.Seq), Timestamp: e.Ts}
	p := &msgstream.MsgPack{BeginTs: e.Ts, EndTs: e.Ts, StartPositions: []*msgpb.MsgPosition{pos}, EndPositions: []*msgpb.MsgPosition{pos}}
	switch e.Bad {
	case "empty":
		return p
	case "two":
		p.Msgs = []msgstream.TsMsg{wdOpMsg(e), wdOpMsg(e)}
		return p
	case "unknown":
		p.Msgs = []msgstream.TsMsg{&msgstream.DataNodeTtMsg{BaseMsg: msgstream.BaseMsg{BeginTimestamp: e.Ts, EndTimestamp: e.Ts, HashValues: []uint32{0}}, DataNodeTtMsg: &msgpb.DataNodeTtMsg{Base: &commonpb.MsgBase{MsgType: commonpb.MsgType_DataNodeTt}}}}
		return p
	}
	p.Msgs = []msgstream.TsMsg{wdOpMsg(e)}
	return p
}

// ---- run

type wdDelivery struct {
	ev      *WDEvent
	err     error
	faulted bool
	from    int // index of the first downstream call made while handling it
	to      int
	// downstream state right before the handler was entered
	collInc         map[string]int // source "db/coll" -> downstream incarnation at the mapped name (0 = absent)
	dbInc           int
	partInc         map[string]int
	dropKnownBefore bool
	dbDroppedAfter  bool // a drop of the operation's database stamped at or after the operation had been handled before
	dbPresent       bool
	knownDrop       map[int]bool // incarnations (collection / partition) whose drop this writer had handled successfully (or that were dropped before it started)
}

type RigWD struct {
	s       *Sim
	sc      *WDScript
	down    *wdDown
	w       api.Writer
	mu      sync.Mutex
	deliv   []*wdDelivery
	handled map[int]bool // event seq -> handled successfully (or pre-applied)
	next    map[string]int
	queues  map[string][]*WDEvent
}

func RunRigWD(t *testing.T, plan *Plan) {
	cdclog.SetLevel(zapcore.FatalLevel)
	var sc *WDScript
	if len(plan.Script) > 0 {
		sc = &WDScript{}
		if err := json.Unmarshal(plan.Script, sc); err != nil {
			HarnessFail(plan, "bad script: %v", err)
		}
	} else {
		sc = GenWD(NewRng(plan.Seed), plan.Prop)
		b, _ := json.Marshal(sc)
		plan.Script = b
	}
	if msg := validateWD(sc); msg != "" {
		// a script edited by the shrinker that is no longer a possible source history
		WriteResult(&Result{Status: "invalid_script", Harness: msg, Plan: plan, Stats: map[string]int{}, Probes: map[string]int{}})
		os.Exit(0)
	}
	synctest.Test(t, func(t *testing.T) {
		s := NewSim(t, plan)
		s.Start = time.Now()
		StartWatchdogOutside(s)
		for k, v := range sc.Faults {
			s.FaultBudget[k] = v
		}
		installRangeOrder(sc.RangeMode)
		r := &RigWD{s: s, sc: sc, handled: map[int]bool{}, next: map[string]int{}, queues: map[string][]*WDEvent{}}
		r.run()
		res := s.Result("ok")
		res.Real = []string{"writer.ChannelWriter: HandleOpMessagePack, HandleReplicateAPIEvent, WaitObjReady cascade, getObjState, mapDBAndCollectionName", "meta.ReplicateMeteImpl (memory store)"}
		res.Stub = []string{"api.DataHandler (simulated downstream catalog with incarnation tags, parked calls)", "source history generator"}
		res.Sample = map[string]any{"events": len(sc.Events), "start": sc.Start, "op_replay": sc.OpReplay, "mapping": sc.Mapping, "first_events": firstN(sc.Events, 8)}
		WriteResult(res)
		if res.Status == "violation" {
			os.Exit(1)
		}
		os.Exit(0)
	})
}

func firstN(es []WDEvent, n int) []WDEvent {
	if len(es) > n {
		return es[:n]
	}
	return es
}

// mapped returns the downstream key of a source collection.
func (r *RigWD) mapped(db, coll string) (string, string) { return refMap(r.sc.Mapping, db, coll) }

func (r *RigWD) run() {
	s, sc := r.s, r.sc
	d := &wdDown{s: s, sc: sc, dbs: map[string]int{"default": 1}, colls: map[string]*wdColl{}}
	r.down = d
	// the image of the source's default database exists downstream (nobody ever creates "default")
	// ... and so does the target database of a collection-level entry (the operator provisions it)
	for src, t := range sc.Mapping {
		if strings.HasPrefix(src, "default.") || !strings.HasSuffix(src, ".*") {
			d.dbs[strings.SplitN(t, ".", 2)[0]] = 1
		}
		// with only collection-level entries for a source database its other collections keep their
		// database name, while database-level operations go to the entry's target database: both exist
		sdb := strings.SplitN(src, ".", 2)[0]
		if _, whole := sc.Mapping[sdb+".*"]; !whole && !strings.HasSuffix(src, ".*") {
			d.dbs[sdb] = 1
		}
	}
	// ---- pre-history: everything before Start has been replicated by an earlier incarnation
	dropped := map[string]map[string]uint64{util.DroppedDatabaseKey: {}, util.DroppedCollectionKey: {}, util.DroppedPartitionKey: {}}
	type hist struct {
		createTs uint64
		alive    bool
		everDrop bool
	}
	collH, partH, dbH := map[string]*hist{}, map[string]*hist{}, map[string]*hist{}
	for i := 0; i < sc.Start && i < len(sc.Events); i++ {
		e := &sc.Events[i]
		r.handled[e.Seq] = true
		mdb, mcoll := r.mapped(e.DB, e.Coll)
		ck := dbOf(e.DB) + "/" + e.Coll
		switch e.Kind {
		case "createdb":
			ddb, _ := r.mapped(e.DB, "")
			d.dbs[ddb] = e.IncDB
			dbH[dbOf(e.DB)] = &hist{createTs: e.Ts, alive: true, everDrop: dbH[dbOf(e.DB)] != nil && dbH[dbOf(e.DB)].everDrop}
		case "dropdb":
			ddb, _ := r.mapped(e.DB, "")
			delete(d.dbs, ddb)
			if h := dbH[dbOf(e.DB)]; h != nil {
				h.alive, h.everDrop = false, true
			}
		case "createc":
			d.colls[mdb+"/"+mcoll] = &wdColl{inc: e.IncColl, parts: map[string]int{}}
			ed := collH[ck] != nil && collH[ck].everDrop
			collH[ck] = &hist{createTs: e.Ts, alive: true, everDrop: ed}
		case "dropc":
			delete(d.colls, mdb+"/"+mcoll)
			if h := collH[ck]; h != nil {
				h.alive, h.everDrop = false, true
			}
			for k, h := range partH {
				if strings.HasPrefix(k, ck+"/") && h.alive {
					h.alive, h.everDrop = false, true
				}
			}
		case "createp":
			if co := d.colls[mdb+"/"+mcoll]; co != nil {
				co.parts[e.Part] = e.IncParts[e.Part]
			}
			pk := ck + "/" + e.Part
			ed := partH[pk] != nil && partH[pk].everDrop
			partH[pk] = &hist{createTs: e.Ts, alive: true, everDrop: ed}
		case "dropp":
			if co := d.colls[mdb+"/"+mcoll]; co != nil {
				delete(co.parts, e.Part)
			}
			if h := partH[ck+"/"+e.Part]; h != nil {
				h.alive, h.everDrop = false, true
			}
		}
	}
	// start-up snapshot of dropped objects as the source catalog would give it at this moment
	now := uint64(5_000)
	if sc.Start > 0 && sc.Start <= len(sc.Events) {
		now = sc.Events[sc.Start-1].Ts + 1
	}
	for k, h := range collH {
		if !h.everDrop {
			continue
		}
		p := strings.SplitN(k, "/", 2)
		_, dk := util.GetCollectionInfoKeys(p[1], p[0])
		if h.alive {
			dropped[util.DroppedCollectionKey][dk] = h.createTs - 1
		} else {
			dropped[util.DroppedCollectionKey][dk] = now - 1
		}
	}
	for k, h := range partH {
		if !h.everDrop {
			continue
		}
		p := strings.SplitN(k, "/", 3)
		_, dk := util.GetPartitionInfoKeys(p[2], p[1], p[0])
		if h.alive {
			dropped[util.DroppedPartitionKey][dk] = h.createTs - 1
		} else {
			dropped[util.DroppedPartitionKey][dk] = now - 1
		}
	}
	store := &memReplicateStore{m: map[string]api.MetaMsg{}}
	rm, err := newReplicateMeta(store)
	if err != nil {
		HarnessFail(s.Plan, "replicate meta: %v", err)
	}
	w := writer.NewChannelWriter(d, rm, config.WriterConfig{MessageBufferSize: 4, ReplicateID: sc.ReplicateID, Retry: config.RetrySettings{RetryTimes: sc.RetryTimes, InitBackOff: 1, MaxBackOff: 1}}, dropped, "milvus")
	if len(sc.Mapping) > 0 {
		w.(interface{ UpdateNameMappings(map[string]string) }).UpdateNameMappings(sc.Mapping)
	}
	r.w = w
	// ---- delivery queues
	opFrom := sc.Start
	for i, n := sc.Start-1, 0; i >= 0 && n < sc.OpReplay; i-- {
		if sc.Events[i].Stream == "op" {
			opFrom = i
			n++
		}
	}
	for i := range sc.Events {
		e := &sc.Events[i]
		if e.Stream == "op" && i >= opFrom {
			r.queues["op"] = append(r.queues["op"], e)
		}
		if e.Stream == "api" && i >= sc.Start {
			r.queues["api"] = append(r.queues["api"], e)
		}
	}
	for _, st := range []string{"api", "op"} {
		st := st
		go r.streamLoop(st)
	}
	for s.Step < 900 {
		s.Settle()
		acts := s.ReleaseActions(func(c *Call) []string {
			if c.Kind == "ddl" {
				return []string{"ddl_reject_before", "ddl_reject_after"}
			}
			return nil
		})
		var filtered []Action
		for _, a := range acts {
			// a stream may only start its next delivery when the causal prerequisites were handled
			if strings.HasPrefix(a.Key, "rel:dlv|") {
				st := strings.SplitN(strings.TrimPrefix(a.Key, "rel:dlv|"), "#", 2)[0]
				if !r.deliverable(st) {
					continue
				}
			}
			if strings.HasPrefix(a.Key, "rel:dlv|") && (strings.Contains(a.Key, ":dropc") || strings.Contains(a.Key, ":dropp") || strings.Contains(a.Key, ":dropdb")) {
				// bias: a drop that can start while a request of the other stream is waiting at the downstream is preferred
				// (the window between an operation's readiness check and the execution of its request)
				for _, c := range s.Parked() {
					if c.Kind == "ddl" {
						a.Weight *= 4
						break
					}
				}
			}
			filtered = append(filtered, a)
		}
		if len(filtered) == 0 {
			onlyDlv := true
			for _, c := range s.Parked() {
				if c.Kind != "dlv" {
					onlyDlv = false
				}
			}
			if onlyDlv {
				break
			}
		}
		for _, ms := range []int{100, 1000} {
			ms := ms
			filtered = append(filtered, Action{Key: fmt.Sprintf("clk:%04d", ms), Weight: 1, Run: func() { s.Stats["clock_advance"]++; s.Advance(time.Duration(ms) * time.Millisecond) }})
		}
		s.StepOnce(filtered)
	}
	s.Settle()
	r.oracle()
}

func newReplicateMeta(store api.ReplicateStore) (api.ReplicateMeta, error) {
	return coremeta.NewReplicateMetaImpl(store)
}

// deliverable: the next event of the stream may be handed to the writer only after the creations of
// the objects it refers to were handled (an operation on an object nobody created yet is not part of
// the property; an operation whose object was meanwhile dropped or re-created is).
func (r *RigWD) deliverable(st string) bool {
	r.mu.Lock()
	defer r.mu.Unlock()
	i := r.next[st]
	if i >= len(r.queues[st]) {
		return false
	}
	e := r.queues[st][i]
	need := func(kind string, match func(x *WDEvent) bool) bool {
		for j := range r.sc.Events {
			x := &r.sc.Events[j]
			if x.Kind == kind && match(x) {
				return r.handled[x.Seq]
			}
		}
		return true
	}
	if e.IncDB > 1 && e.Kind != "createdb" {
		if !need("createdb", func(x *WDEvent) bool { return x.IncDB == e.IncDB }) {
			return false
		}
	}
	if e.IncColl != 0 && e.Kind != "createc" {
		if !need("createc", func(x *WDEvent) bool { return x.IncColl == e.IncColl }) {
			return false
		}
	}
	for _, inc := range e.IncColls {
		inc := inc
		if !need("createc", func(x *WDEvent) bool { return x.IncColl == inc }) {
			return false
		}
	}
	if e.Kind != "createp" {
		for p, inc := range e.IncParts {
			p, inc := p, inc
			if !need("createp", func(x *WDEvent) bool { return x.IncParts[p] == inc && x.Part == p }) {
				return false
			}
		}
	}
	return true
}

func (r *RigWD) snapshot(e *WDEvent) *wdDelivery {
	d := r.down
	d.mu.Lock()
	defer d.mu.Unlock()
	dl := &wdDelivery{ev: e, from: len(d.calls), collInc: map[string]int{}, partInc: map[string]int{}}
	ddb, _ := r.mapped(e.DB, "")
	dl.dbInc = d.dbs[ddb]
	_, dl.dbPresent = d.dbs[ddb]
	dl.knownDrop = map[int]bool{}
	r.mu.Lock()
	for i := range r.sc.Events {
		x := &r.sc.Events[i]
		if x.Kind == "dropdb" && dbOf(x.DB) == dbOf(e.DB) && x.Ts >= e.Ts && r.handled[x.Seq] && x.Seq != e.Seq {
			dl.dbDroppedAfter = true
		}
		if r.handled[x.Seq] && x.Seq != e.Seq {
			if x.Kind == "dropc" {
				dl.knownDrop[x.IncColl] = true
			}
			if x.Kind == "dropp" {
				dl.knownDrop[x.IncParts[x.Part]] = true
			}
		}
	}
	r.mu.Unlock()
	names := append([]string(nil), e.Colls...)
	if e.Coll != "" {
		names = append(names, e.Coll)
	}
	for _, cn := range names {
		mdb, mc := r.mapped(e.DB, cn)
		if co := d.colls[mdb+"/"+mc]; co != nil {
			dl.collInc[cn] = co.inc
			if cn == e.Coll {
				for pn, pi := range co.parts {
					dl.partInc[pn] = pi
				}
			}
		}
	}
	return dl
}

func (r *RigWD) streamLoop(st string) {
	s := r.s
	for {
		r.mu.Lock()
		i := r.next[st]
		r.mu.Unlock()
		if i >= len(r.queues[st]) {
			s.Park(nil, "dlv", st+"#end", nil) // parks forever (never deliverable)
			return
		}
		e := r.queues[st][i]
		s.Park(nil, "dlv", fmt.Sprintf("%s#%03d:%s", st, e.Seq, e.Kind), nil)
		dl := r.snapshot(e)
		ctx := context.WithValue(context.Background(), evKey{}, e)
		fb := s.statOf("fault:ddl_reject_before") + s.statOf("fault:ddl_reject_after") + s.statOf("fault:db_not_empty")
		var err error
		if st == "api" {
			err = r.w.HandleReplicateAPIEvent(ctx, wdAPIEvent(e))
		} else {
			_, err = r.w.HandleOpMessagePack(ctx, wdPack(e))
		}
		dl.err = err
		dl.faulted = s.statOf("fault:ddl_reject_before")+s.statOf("fault:ddl_reject_after")+s.statOf("fault:db_not_empty") > fb
		r.down.mu.Lock()
		dl.to = len(r.down.calls)
		r.down.mu.Unlock()
		r.mu.Lock()
		r.deliv = append(r.deliv, dl)
		if err == nil || e.Bad != "" {
			r.handled[e.Seq] = true
			r.next[st] = i + 1
		} else if !dl.faulted {
			// an error without an injected fault: recorded, the stream moves on (the oracle decides)
			r.handled[e.Seq] = true
			r.next[st] = i + 1
		}
		// after an injected fault the same event is delivered again (resume from checkpoint)
		r.mu.Unlock()
		s.Side("handled %s #%d %s err=%v faulted=%v", st, e.Seq, e.Kind, err != nil, dl.faulted)
	}
}

var mutKinds = map[string]bool{"createc": true, "dropc": true, "createp": true, "dropp": true, "createdb": true, "dropdb": true, "alterdb": true, "flush": true, "createidx": true, "dropidx": true, "alteridx": true,
	"loadc": true, "releasec": true, "loadp": true, "releasep": true, "createuser": true, "deleteuser": true, "updateuser": true, "createrole": true, "droprole": true, "userrole": true, "privilege": true}

func (r *RigWD) oracle() {
	s, sc, d := r.s, r.sc, r.down
	d.mu.Lock()
	calls := append([]*wdCall(nil), d.calls...)
	d.mu.Unlock()
	r.mu.Lock()
	deliv := append([]*wdDelivery(nil), r.deliv...)
	for _, st := range []string{"api", "op"} {
		if r.next[st] < len(r.queues[st]) {
			s.Probe("stream_not_finished")
		}
	}
	r.mu.Unlock()

	// ---- C09: every call targets the mapped database and collection (also the routed database)
	for _, c := range calls {
		e := c.Ev
		if e == nil {
			continue
		}
		wantDB, _ := r.mapped(e.DB, "")
		switch {
		case c.Kind == "desc_db":
			// readiness probe of a database: the database the operation's object lives in downstream
			ok := c.DB == wantDB
			for _, cn := range append(append([]string(nil), e.Colls...), e.Coll) {
				if mdb, _ := r.mapped(e.DB, cn); c.DB == mdb {
					ok = true
				}
			}
			if _, whole := sc.Mapping[dbOf(e.DB)+".*"]; !whole {
				for src, t := range sc.Mapping {
					if strings.HasPrefix(src, dbOf(e.DB)+".") && c.DB == strings.SplitN(t, ".", 2)[0] {
						ok = true
					}
				}
			}
			if !ok {
				s.Violate("C09", "database_name", "%s for source database %q names database %q, the mapping gives %q", c.Kind, dbOf(e.DB), c.DB, wantDB)
			}
		case c.Kind == "createdb" || c.Kind == "dropdb" || c.Kind == "alterdb":
			// database-level operations: a whole-database entry decides; with only collection-level
			// entries for that database the property does not say which name applies, so the source
			// name and the target database of any such entry are both accepted
			ok := c.DB == wantDB
			if _, whole := sc.Mapping[dbOf(e.DB)+".*"]; !whole {
				for src, t := range sc.Mapping {
					if strings.HasPrefix(src, dbOf(e.DB)+".") && c.DB == strings.SplitN(t, ".", 2)[0] {
						ok = true
					}
				}
			}
			if !ok {
				s.Violate("C09", "database_name", "%s for source database %q names database %q, the mapping gives %q", c.Kind, dbOf(e.DB), c.DB, wantDB)
			}
		case c.Coll != "" || len(c.Colls) > 0:
			names := c.Colls
			srcNames := e.Colls
			if len(names) == 0 {
				names = []string{c.Coll}
				if len(e.Colls) == 0 {
					srcNames = nil
				}
			}
			for i, got := range names {
				// which source collection is this? for single-collection ops it is e.Coll; for flush, position among the non-skipped names
				src := e.Coll
				if srcNames != nil {
					src = ""
					for _, cand := range srcNames {
						_, mc := r.mapped(e.DB, cand)
						if mc == got {
							src = cand
						}
					}
					if src == "" {
						s.Violate("C09", "collection_name", "%s (source db %q, collections %v) names collection %q which is the image of none of them", c.Kind, dbOf(e.DB), srcNames, got)
						continue
					}
				}
				wdb, wc := r.mapped(e.DB, src)
				if got != wc {
					s.Violate("C09", "collection_name", "%s for source %s.%s names collection %q, the mapping gives %q", c.Kind, dbOf(e.DB), src, got, wc)
				}
				if dbOf(c.RouteD) != wdb {
					s.Violate("C09", "routed_database", "%s for source %s.%s is routed to database %q, the mapping gives %q", c.Kind, dbOf(e.DB), src, dbOf(c.RouteD), wdb)
				}
				if c.DB != "" && c.Kind != "createc" && dbOf(c.DB) != wdb && c.Extra != "dbname-routed" {
					s.Violate("C09", "request_database", "%s for source %s.%s carries db_name %q in the request, the mapping gives %q", c.Kind, dbOf(e.DB), src, c.DB, wdb)
				}
				if c.Extra == "dbname-routed" && dbOf(c.DB) != wdb {
					s.Violate("C09", "request_database", "%s for source %s.%s carries db_name %q in the request, the mapping gives %q", c.Kind, dbOf(e.DB), src, c.DB, wdb)
				}
				if dbOf(e.DB) != "default" && wdb != "default" && dbOf(c.RouteD) == "default" {
					s.Violate("C09", "default_database", "%s for an object of database %q is executed in the default database", c.Kind, dbOf(e.DB))
				}
				if wdb != dbOf(e.DB) || wc != src {
					s.Probe("mapped_call")
				}
				_ = i
			}
		}
		if len(sc.Mapping) == 2 && sc.Mapping["dbx.c1"] != "" && sc.Mapping["dbx.*"] != "" && dbOf(e.DB) == "dbx" {
			s.Probe("exact_and_wildcard_mapping")
		}
	}

	// ---- per delivery: C08 (incarnations), C20 (one request with the identity fields and the stamp)
	seenOK := map[int]bool{}
	for _, dl := range deliv {
		e := dl.ev
		var muts []*wdCall
		for _, c := range calls[dl.from:dl.to] {
			if c.Ev == e && mutKinds[c.Kind] {
				muts = append(muts, c)
			}
		}
		if e.Bad != "" {
			if dl.err == nil {
				s.Violate("C20", "malformed_accepted", "a pack with %s content was accepted", e.Bad)
			}
			if len(muts) > 0 {
				s.Violate("C20", "malformed_applied", "a pack with %s content caused %d downstream request(s)", e.Bad, len(muts))
			}
			s.Probe("malformed_pack")
			continue
		}
		if dl.faulted {
			continue // the event is delivered again; judged on the clean delivery
		}
		// the other stream dropped something while this operation was in flight: whether the operation
		// still had to be applied depends on an order the property does not fix; only "never touch a
		// newer incarnation" is judged then
		concurrentDrop := false
		for _, c := range calls[dl.from:dl.to] {
			if c.Ev != e && !c.Err && (c.Kind == "dropc" || c.Kind == "dropp" || c.Kind == "dropdb") {
				concurrentDrop = true
			}
		}
		if concurrentDrop {
			s.Probe("concurrent_drop_during_operation")
			// One case is decided all the same: the drop of the very incarnation the operation addresses (stamped at or
			// after the operation) had been handled completely - its handler had returned successfully, so the drop is
			// recorded - before the operation's own first downstream request was executed. A request that then fails must
			// end in a successful skip, not in an error.
			single := map[string]bool{"createidx": true, "dropidx": true, "alteridx": true, "loadc": true, "releasec": true, "createp": true, "dropp": true}
			// (requests that name lists of collections / partitions are left out: when one member is dropped concurrently the
			// pinned code fails the request and handles the members one by one at the re-delivery, which the property does not exclude)
			if e.IncColl != 0 && single[e.Kind] {
				firstOwn := -1
				for i, c := range calls[dl.from:dl.to] {
					if c.Ev == e && mutKinds[c.Kind] {
						firstOwn = dl.from + i
						break
					}
				}
				for _, d2 := range deliv {
					x := d2.ev
					if d2 != dl && d2.err == nil && !d2.faulted && x.Kind == "dropc" && x.IncColl == e.IncColl && x.Ts >= e.Ts && firstOwn >= 0 && d2.to <= firstOwn && d2.to > dl.from {
						what := fmt.Sprintf("%s #%d (%s.%s ts=%d)", e.Kind, e.Seq, dbOf(e.DB), e.Coll, e.Ts)
						s.Probe("drop_completed_before_request_executed")
						if dl.err == nil {
							break
						}
						s.Violate("C08", "stale_op_failed", "%s: the drop of its collection (ts=%d) was handled completely while the operation was in flight and before its downstream request was executed; the request failed and the operation must be skipped successfully, but it failed: %v", what, x.Ts, dl.err)
						mdb, mcoll := refMap(r.sc.Mapping, e.DB, e.Coll)
						if mdb != dbOf(e.DB) || mcoll != e.Coll {
							s.Violate("C09", "stale_op_under_mapping", "%s (mapped to %s.%s): the drop of its collection had been recorded (under the SOURCE names) before its downstream request failed; it must be skipped but failed (%v)", what, mdb, mcoll, dl.err)
						}
						break
					}
				}
			}
			continue
		}
		replayed := seenOK[e.Seq]
		seenOK[e.Seq] = true
		_ = replayed
		// does the downstream hold the incarnation the operation was issued for?
		current := true // object (chain) present downstream with the source incarnation alive at e.Ts
		newer := false  // a different (newer) incarnation of the same name is present
		chk := func(have, want int) {
			if want == 0 {
				return
			}
			if have != want {
				current = false
				if have != 0 {
					newer = true
				}
			}
		}
		switch e.Kind {
		case "createdb":
			current = true
		case "dropdb", "alterdb":
			// database incarnations are not tracked (mapped / pre-provisioned databases have no source incarnation)
			current = dl.dbPresent
		case "createc":
			// judged on the collection level only
		case "flush":
			// judged per collection below
		default:
			if e.IncColl != 0 {
				chk(dl.collInc[e.Coll], e.IncColl)
			}
		}
		if dl.dbDroppedAfter && e.Kind != "createdb" && e.Kind != "dropdb" && e.Kind != "alterdb" && (e.Coll != "" || len(e.Colls) > 0) {
			// the database itself was dropped at or after the operation's time
			current = false
			if dl.dbPresent {
				newer = true
			}
		}
		wantKind := e.Kind
		switch {
		case e.Kind == "flush":
			var wantNames []string
			undecided := false
			for _, cn := range e.Colls {
				if dl.collInc[cn] == e.IncColls[cn] {
					_, mc := r.mapped(e.DB, cn)
					wantNames = append(wantNames, mc)
				} else {
					if dl.collInc[cn] != 0 {
						newer = true
					}
					if !dl.knownDrop[e.IncColls[cn]] && !dl.dbDroppedAfter {
						undecided = true // gone downstream, but this writer has not (successfully) handled the drop yet
					}
				}
			}
			if undecided {
				s.Probe("gone_but_drop_not_yet_known")
				continue
			}
			r.judge(dl, muts, wantKind, len(wantNames) > 0, newer, func(c *wdCall) string {
				got := append([]string(nil), c.Colls...)
				sort.Strings(got)
				sort.Strings(wantNames)
				if strings.Join(got, ",") != strings.Join(wantNames, ",") {
					return fmt.Sprintf("collections %v, expected %v (collections whose incarnation is gone removed)", c.Colls, wantNames)
				}
				return ""
			})
		case e.Kind == "loadp" || e.Kind == "releasep":
			var wantParts []string
			undecided := !current && !dl.knownDrop[e.IncColl] && !dl.dbDroppedAfter
			if current {
				for _, pn := range e.Parts {
					if dl.partInc[pn] == e.IncParts[pn] {
						wantParts = append(wantParts, pn)
					} else {
						if dl.partInc[pn] != 0 {
							newer = true
						}
						if !dl.knownDrop[e.IncParts[pn]] {
							undecided = true
						}
					}
				}
			}
			if undecided {
				s.Probe("gone_but_drop_not_yet_known")
				continue
			}
			r.judge(dl, muts, wantKind, current && len(wantParts) > 0, newer, func(c *wdCall) string {
				got := append([]string(nil), c.Parts...)
				sort.Strings(got)
				sort.Strings(wantParts)
				if strings.Join(got, ",") != strings.Join(wantParts, ",") {
					return fmt.Sprintf("partitions %v, expected %v (already dropped partitions removed)", c.Parts, wantParts)
				}
				if len(wantParts) < len(e.Parts) {
					s.Probe("dropped_partition_removed_from_list")
				}
				return ""
			})
		case e.Kind == "createp":
			r.judge(dl, muts, wantKind, current, newer, func(c *wdCall) string {
				if c.Part != e.Part {
					return fmt.Sprintf("partition %q, expected %q", c.Part, e.Part)
				}
				return ""
			})
		case e.Kind == "dropp":
			cur := current && dl.partInc[e.Part] == e.IncParts[e.Part]
			if current && dl.partInc[e.Part] != 0 && dl.partInc[e.Part] != e.IncParts[e.Part] {
				newer = true
			}
			r.judge(dl, muts, wantKind, cur, newer, func(c *wdCall) string {
				if c.Part != e.Part {
					return fmt.Sprintf("partition %q, expected %q", c.Part, e.Part)
				}
				return ""
			})
		case e.Kind == "createc":
			r.judge(dl, muts, wantKind, current, newer, func(c *wdCall) string {
				p, _ := c.Extra.(*api.CreateCollectionParam)
				if p == nil {
					return "no create-collection parameters"
				}
				want := wdSchema(e.Coll)
				if len(p.Schema.Fields) != len(want.Fields) || p.Schema.Description != want.Description || p.Schema.AutoID != want.AutoID {
					return fmt.Sprintf("schema %d fields / description %q, expected %d / %q", len(p.Schema.Fields), p.Schema.Description, len(want.Fields), want.Description)
				}
				for i, f := range want.Fields {
					g := p.Schema.Fields[i]
					if g.Name != f.Name || g.PrimaryKey != f.IsPrimaryKey || int32(g.DataType) != int32(f.DataType) || (f.DataType == schemapb.DataType_FloatVector && g.TypeParams["dim"] != "4") {
						return fmt.Sprintf("schema field %d is %s/%v/%v, expected %s/%v/%v", i, g.Name, g.DataType, g.TypeParams, f.Name, f.DataType, f.TypeParams)
					}
				}
				if p.ShardsNum != 2 || p.ConsistencyLevel != commonpb.ConsistencyLevel_Bounded {
					return fmt.Sprintf("shards %d consistency %v, expected 2 / Bounded", p.ShardsNum, p.ConsistencyLevel)
				}
				hasTTL, hasRID := false, false
				for _, kv := range p.Properties {
					if kv.Key == "collection.ttl.seconds" && kv.Value == "60" {
						hasTTL = true
					}
					if kv.Key == "replicate.id" && kv.Value == sc.ReplicateID {
						hasRID = true
					}
				}
				if !hasTTL || (sc.ReplicateID != "" && !hasRID) {
					return fmt.Sprintf("properties %v lack the source properties / the replicate id", p.Properties)
				}
				return ""
			})
		case e.Kind == "createidx" || e.Kind == "dropidx" || e.Kind == "alteridx":
			r.judge(dl, muts, wantKind, current, newer, func(c *wdCall) string {
				if c.Name != e.Name || (e.Kind != "alteridx" && c.Field != e.Field) {
					return fmt.Sprintf("index %q field %q, expected %q / %q", c.Name, c.Field, e.Name, e.Field)
				}
				return ""
			})
		case strings.HasSuffix(e.Kind, "user") || strings.HasSuffix(e.Kind, "role") || e.Kind == "privilege":
			r.judge(dl, muts, wantKind, true, false, func(c *wdCall) string {
				if c.Name != e.Name {
					return fmt.Sprintf("subject %q, expected %q", c.Name, e.Name)
				}
				switch e.Kind {
				case "createuser":
					if c.Extra != "cHdkMQ==" {
						return fmt.Sprintf("password encoding %v changed", c.Extra)
					}
				case "updateuser":
					if c.Extra != "b2xk>bmV3" {
						return fmt.Sprintf("passwords %v changed", c.Extra)
					}
				case "userrole":
					if c.Extra != "r-"+e.Name+":AddUserToRole" {
						return fmt.Sprintf("role/type %v", c.Extra)
					}
				case "privilege":
					if c.Extra != "Query:Grant" {
						return fmt.Sprintf("privilege/type %v", c.Extra)
					}
				}
				return ""
			})
		default:
			r.judge(dl, muts, wantKind, current, newer, nil)
		}
	}
}

// dbPlacementOpen: the operation's source database has collection-level mapping entries but no whole-database entry, and
// the operation is routed to a different database than the one a database-level operation of that source database goes to.
func (r *RigWD) dbPlacementOpen(e *WDEvent) bool {
	src := dbOf(e.DB)
	if _, whole := r.sc.Mapping[src+".*"]; whole {
		return false
	}
	opDB, _ := r.mapped(e.DB, e.Coll)
	for from, t := range r.sc.Mapping {
		if strings.HasPrefix(from, src+".") && strings.SplitN(t, ".", 2)[0] != opDB {
			return true
		}
	}
	return false
}

// raceClass recognises the known check-then-act race between the two streams: the incarnation found downstream under the
// operation's name was created by a create-collection event whose own handling overlapped a drop of its database by the
// other stream (the readiness decision was taken before the drop, the creation executed after the database had been
// re-created), so a collection of a database incarnation that no longer exists was created inside the new one.
func (r *RigWD) raceClass(dl *wdDelivery) string {
	e := dl.ev
	have := dl.collInc[e.Coll]
	if have == 0 {
		return ""
	}
	r.down.mu.Lock()
	calls := append([]*wdCall(nil), r.down.calls...)
	r.down.mu.Unlock()
	r.mu.Lock()
	deliv := append([]*wdDelivery(nil), r.deliv...)
	r.mu.Unlock()
	for _, d0 := range deliv {
		if d0.ev.Kind != "createc" || d0.ev.IncColl != have || d0.err != nil {
			continue
		}
		for _, c := range calls[d0.from:min(d0.to, len(calls))] {
			if c.Ev != d0.ev && c.Kind == "dropdb" && !c.Err && dbOf(c.Ev.DB) == dbOf(d0.ev.DB) && c.Ev.Ts >= d0.ev.Ts {
				r.s.Probe("create_raced_database_recreation")
				return "_create_raced_database_recreation"
			}
		}
	}
	return ""
}

// judge applies the common rules to one clean delivery.
func (r *RigWD) judge(dl *wdDelivery, muts []*wdCall, wantKind string, mustApply, newerPresent bool, fields func(*wdCall) string) {
	known := dl.dbDroppedAfter
	e0 := dl.ev
	if e0.IncColl != 0 && dl.knownDrop[e0.IncColl] {
		known = true
	}
	if (e0.Kind == "createp" || e0.Kind == "dropp") && dl.knownDrop[e0.IncParts[e0.Part]] {
		known = true
	}
	if e0.Kind == "flush" || e0.Kind == "loadp" || e0.Kind == "releasep" {
		known = true // list operations: members are judged individually through the expected list
	}
	s := r.s
	e := dl.ev
	what := fmt.Sprintf("%s #%d (%s.%s ts=%d)", e.Kind, e.Seq, dbOf(e.DB), e.Coll, e.Ts)
	applied := 0
	for _, c := range muts {
		if c.Kind == wantKind && !c.Err {
			applied++
		}
	}
	if !mustApply {
		// the incarnation the operation was issued for is not downstream any more (dropped, or superseded by a re-creation)
		s.Probe("stale_operation")
		if newerPresent {
			s.Probe("stale_operation_newer_incarnation_present")
		}
		mdb, mcoll := refMap(r.sc.Mapping, e.DB, e.Coll)
		mapped := e.Coll != "" && (mdb != dbOf(e.DB) || mcoll != e.Coll)
		if applied > 0 && newerPresent {
			s.Violate("C08", "wrong_incarnation"+r.raceClass(dl), "%s was issued for an incarnation that no longer exists, but it was executed against the newer incarnation of the same name", what)
			if mapped {
				s.Violate("C09", "stale_op_under_mapping", "%s (mapped to %s.%s) was issued for an incarnation that no longer exists but was executed: the drop bookkeeping, which is keyed by SOURCE names, did not recognise it", what, mdb, mcoll)
			}
		}
		if dl.err != nil && known {
			s.Violate("C08", "stale_op_failed", "%s belongs to an incarnation whose drop (at or after the operation's time) this writer had already handled; it must be skipped successfully but failed: %v", what, dl.err)
			if mapped {
				s.Violate("C09", "stale_op_under_mapping", "%s (mapped to %s.%s) belongs to an incarnation whose drop this writer had already handled; it must be skipped but failed (%v): the drop bookkeeping, which is keyed by SOURCE names, did not recognise it", what, mdb, mcoll, dl.err)
			}
		}
		if dl.err != nil && !known {
			s.Probe("gone_but_drop_not_yet_known")
		}
		return
	}
	if fields != nil {
		// the identity fields of every request of the right kind are judged, also of one the downstream refused
		for _, c := range muts {
			if c.Kind == wantKind {
				if msg := fields(c); msg != "" {
					s.Violate("C20", "identity_fields", "%s: downstream request has %s", what, msg)
				}
			}
		}
	}
	if dl.err != nil && strings.Contains(dl.err.Error(), "database not found") && r.dbPlacementOpen(e) {
		// the source database has only collection-level mapping entries: its database-level operations were accepted under
		// either name (C09 above), so the database this operation is routed to may never have been created downstream by the
		// replication itself. The failure says nothing about incarnations.
		s.Probe("db_level_placement_open")
		return
	}
	if dl.err != nil {
		s.Violate("C08", "live_op_failed", "%s addresses the incarnation that is present downstream and no fault was injected, but it failed: %v", what, dl.err)
		return
	}
	if applied == 0 {
		s.Violate("C08", "live_op_skipped", "%s addresses the incarnation that is present downstream but no %s request was issued", what, wantKind)
		return
	}
	if applied > 1 {
		s.Violate("C20", "request_count", "%s produced %d downstream %s requests", what, applied, wantKind)
	}
	for _, c := range muts {
		if c.Kind != wantKind {
			s.Violate("C20", "request_kind", "%s produced a downstream %s request", what, c.Kind)
			continue
		}
		if !c.HasInf || !c.IsRep {
			s.Violate("C20", "not_marked", "%s: the downstream request is not marked as a replication request", what)
		}
		if c.Ts != e.Ts {
			s.Violate("C20", "stamp_ts", "%s: the downstream request carries timestamp %d, the source operation time is %d", what, c.Ts, e.Ts)
		}
	}
	s.Probe("applied_" + e.Stream)
}

// validateWD checks that the events form a possible source history (objects are created before use,
// never created twice while alive, and every referenced incarnation is the one alive at that time).
func validateWD(sc *WDScript) string {
	dbs := map[string]int{"default": 1}
	colls := map[string]int{}
	parts := map[string]int{}
	var lastTs uint64
	for i := range sc.Events {
		e := &sc.Events[i]
		if e.Ts <= lastTs {
			return fmt.Sprintf("event %d: timestamps not increasing", e.Seq)
		}
		lastTs = e.Ts
		if e.Bad != "" {
			continue
		}
		d := dbOf(e.DB)
		ck := d + "/" + e.Coll
		switch e.Kind {
		case "createdb":
			if dbs[d] != 0 {
				return fmt.Sprintf("event %d: database %s created twice", e.Seq, d)
			}
			dbs[d] = e.IncDB
		case "dropdb":
			if dbs[d] != e.IncDB {
				return fmt.Sprintf("event %d: dropdb of a database incarnation that is not alive", e.Seq)
			}
			for k := range colls {
				if strings.HasPrefix(k, d+"/") {
					return fmt.Sprintf("event %d: dropdb of a non-empty database", e.Seq)
				}
			}
			delete(dbs, d)
		case "alterdb":
			if dbs[d] != e.IncDB {
				return fmt.Sprintf("event %d: alterdb of a dead database", e.Seq)
			}
		case "createc":
			if dbs[d] != e.IncDB || colls[ck] != 0 {
				return fmt.Sprintf("event %d: createc in a dead database or of a live collection", e.Seq)
			}
			colls[ck] = e.IncColl
		case "dropc":
			if colls[ck] != e.IncColl {
				return fmt.Sprintf("event %d: dropc of an incarnation that is not alive", e.Seq)
			}
			delete(colls, ck)
			for k := range parts {
				if strings.HasPrefix(k, ck+"/") {
					delete(parts, k)
				}
			}
		case "createp":
			if colls[ck] != e.IncColl || parts[ck+"/"+e.Part] != 0 {
				return fmt.Sprintf("event %d: createp on a dead collection or of a live partition", e.Seq)
			}
			parts[ck+"/"+e.Part] = e.IncParts[e.Part]
		case "dropp":
			if colls[ck] != e.IncColl || parts[ck+"/"+e.Part] != e.IncParts[e.Part] {
				return fmt.Sprintf("event %d: dropp of a partition incarnation that is not alive", e.Seq)
			}
			delete(parts, ck+"/"+e.Part)
		case "flush":
			for cn, inc := range e.IncColls {
				if colls[d+"/"+cn] != inc {
					return fmt.Sprintf("event %d: flush names a dead collection", e.Seq)
				}
			}
		case "loadp", "releasep":
			if colls[ck] != e.IncColl {
				return fmt.Sprintf("event %d: %s on a dead collection", e.Seq, e.Kind)
			}
			for pn, inc := range e.IncParts {
				if parts[ck+"/"+pn] != inc {
					return fmt.Sprintf("event %d: %s names a dead partition", e.Seq, e.Kind)
				}
			}
		case "createidx", "dropidx", "alteridx", "loadc", "releasec":
			if colls[ck] != e.IncColl {
				return fmt.Sprintf("event %d: %s on a dead collection", e.Seq, e.Kind)
			}
		}
	}
	return ""
}
