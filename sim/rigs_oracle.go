package sim

import (
	"encoding/json"
	"fmt"
	"net/http"
	"net/http/httptest"
	"sort"
	"strings"

	coremodel "github.com/zilliztech/milvus-cdc/core/model"
	"github.com/zilliztech/milvus-cdc/core/pb"
	"github.com/zilliztech/milvus-cdc/server"
	"github.com/zilliztech/milvus-cdc/server/model/meta"

	"github.com/milvus-io/milvus-proto/go-api/v2/schemapb"
)

// ------------------------------------------------------------------ per step

func (r *RigS) afterStep(crashing bool) {
	r.noteRegistrations()
	r.mu.Lock()
	done := r.opDone
	r.opDone = nil
	r.mu.Unlock()
	if done != nil {
		done.Step = r.s.Step
		done.Faults = r.opFaults
		r.st.OpLog = append(r.st.OpLog, *done)
		r.st.InFlight = -1
		r.st.HistAtOp = r.st.HistPos
		r.opBusy = false
		r.judgeResponse(done)
		r.pendingOp = done
	}
	prop := r.plan.Prop
	if prop == "C05" || prop == "C06" || prop == "C03" || prop == "C04" {
		raw := r.rawStore()
		if prop == "C04" {
			r.noteDropRequests()
			r.prevRaw = raw
		}
		if raw != r.lastStore {
			r.lastStore = raw
			r.checkCheckpoints()
			if tasks, err := r.storeTasks(); err == nil {
				for id, ti := range tasks {
					if ti.State == meta.TaskStatePaused && ti.Reason != "" && !strings.HasPrefix(ti.Reason, "manually pause") && !strings.HasPrefix(ti.Reason, "the task is disabled auto start") {
						if t := r.st.Tasks[id]; t != nil && t.Spec != nil && t.Spec.tgt() >= 0 {
							if r.bgPaused == nil {
								r.bgPaused = map[int]bool{}
							}
							r.bgPaused[t.Spec.tgt()] = true
							if loopFailureReason(ti.Reason) {
								if r.loopFailed == nil {
									r.loopFailed = map[int]bool{}
								}
								r.loopFailed[t.Spec.tgt()] = true
							}
						}
					}
				}
			}
		}
	}
	if r.pendingOp != nil && !crashing && r.quiescent() {
		op := r.pendingOp
		r.pendingOp = nil
		r.afterOpQuiescent(op)
	}
}

// takeBefore remembers the bookkeeping and the store right before a request is issued (only at quiescent points).
func (r *RigS) takeBefore() {
	r.haveBefore = false
	if len(r.s.Parked()) != 0 {
		return
	}
	sn, ok := r.cdc.VerifTrySnapshot()
	if !ok {
		return
	}
	r.snapBefore = canonSnap(sn)
	r.storeBefore = r.rawStore()
	r.haveBefore = true
}

func (r *RigS) noteRegistrations() {
	all := r.mq.All
	for r.regSeen < len(all) {
		st := all[r.regSeen]
		r.regSeen++
		rec := SRegRec{VCh: st.Key(), Inc: r.plan.Incarnation, Step: st.RegStep, SeekNil: st.SeekNil, SeekSeq: st.SeekSeq, SeekTs: st.SeekTs, Next: st.Next0}
		r.st.Regs = append(r.st.Regs, rec)
		r.onRegistration(st)
	}
	if r.plan.Prop == "C03" {
		for _, st := range all {
			if !st.Closed {
				continue
			}
			for i := len(r.st.Regs) - 1; i >= 0; i-- {
				if g := &r.st.Regs[i]; g.Inc == r.plan.Incarnation && g.VCh == st.Key() && g.Step == st.RegStep {
					if !g.Closed {
						g.Closed, g.CloseStep = true, st.CloseStep
					}
					break
				}
			}
		}
	}
}

func clientNo(id string) int {
	n := -1
	fmt.Sscanf(id, "c%d", &n)
	return n
}

// targetOfStream: the downstream a dispatcher client belongs to (learned from
// the op-channel registration of the task that created the client pair).
func (r *RigS) targetOfStream(st *SimStream) int {
	n := clientNo(st.Client)
	if n < 0 {
		return -1
	}
	if t, ok := r.pairTarget[n/2]; ok {
		return t
	}
	return -1
}

func (r *RigS) onRegistration(st *SimStream) {
	if r.pairTarget == nil {
		r.pairTarget = map[int]int{}
	}
	if st.PCh == replicateChan {
		// by-dev-replicate-msg_<task>v0
		task := strings.TrimSuffix(strings.TrimPrefix(st.VCh, replicateChan+"_"), "v0")
		if t := r.st.Tasks[task]; t != nil && t.Spec != nil {
			r.pairTarget[clientNo(st.Client)/2] = t.Spec.tgt()
		} else if idx := r.st.InFlight; idx >= 0 && r.sc.Ops[idx].K == "create" && r.sc.Ops[idx].Task == task {
			r.pairTarget[clientNo(st.Client)/2] = r.sc.Ops[idx].Spec.tgt()
		}
		return
	}
	if r.plan.Prop != "C05" && r.plan.Prop != "C06" && r.plan.Prop != "C03" && r.plan.Prop != "C04" {
		return
	}
	tgt := r.targetOfStream(st)
	if tgt < 0 {
		r.s.Probe("stream_target_unknown")
		return
	}
	owner := r.ownerOf(tgt, st.Coll)
	if owner == "" {
		r.s.Probe("stream_owner_unknown")
		return
	}
	if !st.SeekNil && st.SeekCh != "" && st.SeekCh != st.PCh && !strings.HasPrefix(st.SeekCh, st.PCh+"_") {
		// the stream of one source channel is opened with the position of another one
		r.s.Violate("C05", "seek_position_of_other_channel", "stream %s of task %s (source channel %s) is registered with a seek position that names channel %s (msg id %d)", st.Key(), owner, st.PCh, st.SeekCh, st.SeekSeq)
	}
	key := domainKey(owner, tgt, st.Coll, st.Shard)
	r.mu.Lock()
	r.delivered[fmt.Sprintf("%d|%d|%d", tgt, st.Coll, st.Shard)] = -1
	r.mu.Unlock()
	if r.plan.Prop == "C03" && len(r.st.Regs) > 0 {
		rec := &r.st.Regs[len(r.st.Regs)-1]
		rec.Tgt, rec.Coll, rec.Owner, rec.CkptMs = tgt, st.Coll, owner, -1
		if c := r.collByID[st.Coll]; c != nil {
			if dc := r.st.SDK[tgt].Colls[c.DB+"/"+c.Name]; dc != nil {
				for _, v := range dc.VCh {
					rec.TgtPChs = append(rec.TgtPChs, physOf(v))
				}
			}
		}
		// the version of the stored checkpoint that names the message id the stream is registered with (the record may have
		// been written again between the moment the service read it and the registration)
		r.noteCheckpointVersions()
		h := r.st.CkptHist[fmt.Sprintf("%d|%s", st.Coll, st.PCh)] // (of whichever task: with two tasks on one downstream the task that registers the stream need not be the one the model takes for the owner)
		for i := len(h) - 1; i >= 0; i-- {
			// (several versions may name the same message id - a tick-only pack and a data pack ending there - with different
			// times: the earliest time is taken, which demands least)
			if int(h[i][0]) == st.SeekSeq && (rec.CkptMs < 0 || h[i][1] < rec.CkptMs) {
				rec.CkptMs = h[i][1]
			}
		}
	}
	log := r.mq.Logs[st.PCh]
	from, again := r.st.Domain[key]
	if !again {
		r.st.FirstReg[key] = [2]int{r.plan.Incarnation, st.RegStep}
		// first registration of this task's stream: the replication domain starts here (latest, or the given start position)
		if st.SeekNil {
			r.st.Domain[key] = st.Next0
			r.s.Probe("reg_latest")
			return
		}
		from = 0
		for i, e := range log {
			if e.Seq >= st.SeekSeq {
				break
			}
			from = i + 1
		}
		r.st.Domain[key] = from
	} else {
		r.s.Probe("reg_resume")
		if st.SeekNil {
			// a stream that was replicated before comes back without a position: everything published meanwhile is skipped
			if un := r.unacked(tgt, st.Coll, st.Shard, from, len(log)); len(un) > 0 {
				cls := ""
				if c := r.collByID[st.Coll]; c != nil && c.Down && !r.hasCheckpoint(owner, st.Coll, st.PCh) {
					// known finding: for a collection that existed downstream before the task (no create request, no start
					// position stored) nothing is persisted until the first pack of the channel is acknowledged and recorded;
					// a stop before that starts the stream at the end of the channel again
					cls = "_no_checkpoint_yet_for_preexisting_collection"
					r.st.NoCkptSkipped[key] = append(r.st.NoCkptSkipped[key], un...)
					r.s.Probe("restart_before_first_checkpoint_of_preexisting_collection")
				}
				r.s.Violate("C05", "resume_ignores_checkpoint"+cls, "stream %s of task %s is registered again without a position; unacknowledged messages %v of its domain are skipped", st.Key(), owner, un)
			}
			return
		}
	}
	if at, have := r.st.CatDropAt[fmt.Sprint(st.Coll)]; have && (at[0] < r.plan.Incarnation || (at[0] == r.plan.Incarnation && at[1] < st.RegStep)) {
		// the source catalog already showed the collection as dropping when this stream was started: the reader generates the
		// drop message of this shard itself (it does not wait for the one in the message queue)
		k := fmt.Sprintf("%d|%d|%d", tgt, st.Coll, st.Shard)
		if _, seen := r.st.DropSeen[k]; !seen {
			r.st.DropSeen[k] = [2]int{r.plan.Incarnation, st.RegStep}
			r.s.Probe("S_drop_message_generated_at_start")
		}
	}
	if c := r.collByID[st.Coll]; c != nil {
		for _, pid := range c.Parts {
			if at, have := r.st.CatDropAt[fmt.Sprintf("p%d", pid)]; have && (at[0] < r.plan.Incarnation || (at[0] == r.plan.Incarnation && at[1] < st.RegStep)) {
				k := fmt.Sprintf("%d|%d|%d|p%d", tgt, st.Coll, st.Shard, pid)
				if _, seen := r.st.DropSeen[k]; !seen {
					r.st.DropSeen[k] = [2]int{r.plan.Incarnation, st.RegStep}
				}
			}
		}
	}
	for i, e := range log {
		if i >= from && e.Kind == "dropp" && e.Coll == st.Coll && e.Seq >= st.SeekSeq && e.Ts <= st.SeekTs {
			r.st.DropSkipped[fmt.Sprintf("%d|%d|%d|p%d", tgt, st.Coll, st.Shard, e.Part)] = true
		}
		if i >= from && e.Kind == "dropc" && e.Coll == st.Coll && e.Seq >= st.SeekSeq && e.Ts <= st.SeekTs {
			// the drop message itself lies below the seek time: this stream will never report it (KF checkpoint time filter)
			r.st.DropSkipped[fmt.Sprintf("%d|%d|%d", tgt, st.Coll, st.Shard)] = true
			r.s.Probe("drop_message_below_seek_time")
		}
	}
	if r.droppedAtSource(st.Coll) {
		// rows of a collection that is dropped at the source need not arrive (the reader leaves them out, the replayed drop
		// may overtake them): as in the checkpoint and liveness rules, a resume of its stream is not judged
		r.s.Probe("resume_of_dropped_collection_not_judged")
		return
	}
	var skipped, byTime []int64
	skippedForwarded := true
	for i, e := range log {
		if i < from || (e.Kind != "ins" && e.Kind != "del") || e.Coll != st.Coll || e.Shard != st.Shard || r.partDropped(e) {
			continue
		}
		if e.Seq < st.SeekSeq || e.Ts <= st.SeekTs {
			if !r.acked(tgt, e.Tag) {
				if e.Seq >= st.SeekSeq {
					byTime = append(byTime, e.Tag)
				} else {
					skipped = append(skipped, e.Tag)
					skippedForwarded = skippedForwarded && r.tookForwardPath(st.Coll, st.PCh, e.Seq)
				}
			}
		}
	}
	if len(skipped) > 0 {
		cls := ""
		if skippedForwarded {
			// the persisted checkpoint had passed messages that travelled in forwarded packs (KF forwarded-pack-overtaken)
			cls = "_forwarded_pack_overtaken"
			r.st.Overtaken[key] = append(r.st.Overtaken[key], skipped...)
		} else if r.consequenceOfNoCheckpoint(key, skipped) {
			cls = "_after_start_without_checkpoint"
		} else if r.consequenceOfTimeSkip(key, skipped) {
			// an earlier resume of this stream dropped these very messages through the time filter; the stream went on, the
			// checkpoint passed them, and this resume starts behind them
			cls = "_after_restamped_time_skip"
		} else if r.st.StaleAck[fmt.Sprintf("%d|%d|%d", tgt, st.Coll, st.Shard)] {
			// the checkpoint this resume starts from had been moved past these messages by a pack of an earlier registration
			// that was acknowledged after its task had been resumed (KF stale-pack-after-resume; checkpoint_ahead reports it)
			cls = "_stale_pack_after_resume"
		} else if r.leakedRegistration(owner, tgt, st.Coll, st.Shard) {
			cls = "_registration_in_flight_at_stop"
		}
		r.s.Violate("C05", "resume_skips_unacked"+cls, "stream %s of task %s registered at msg id %d / ts %d skips messages (tags %v) that the downstream never acknowledged", st.Key(), owner, st.SeekSeq, st.SeekTs, skipped)
	}
	if len(byTime) > 0 {
		// the messages lie after the checkpoint's message id and are dropped by the time filter of the seek. The pinned design
		// derives that time from the re-stamped (downstream-domain) end time of the acknowledged pack: recognised as that
		// design issue only when the seek time is exactly (end time of an acknowledged pack with that message id) + 1 ms
		cls := ""
		for _, a := range r.st.SDK[tgt].Acks {
			if a.EndSeq == st.SeekSeq && ((a.EndTs>>18)+1)<<18 == st.SeekTs {
				cls = "_by_restamped_checkpoint_time"
			}
		}
		if c := r.collByID[st.Coll]; cls == "" && c != nil && ((c.Ts>>18)+1)<<18 == st.SeekTs {
			// the checkpoint is still the collection's start position; its time is the creation time cut to milliseconds,
			// plus one millisecond: messages stamped within that millisecond are dropped by the filter
			cls = "_by_start_time_rounding"
		}
		if cls != "" {
			r.st.TimeSkipped[key] = append(r.st.TimeSkipped[key], byTime...)
		}
		r.s.Violate("C05", "resume_skips_unacked"+cls, "stream %s of task %s registered at msg id %d / ts %d: messages (tags %v) after that message id lie below the seek time and are dropped although the downstream never acknowledged them", st.Key(), owner, st.SeekSeq, st.SeekTs, byTime)
	}
}

// hasCheckpoint: the task's record holds a position of this collection on this source channel.
func (r *RigS) hasCheckpoint(task string, coll int64, pch string) bool {
	poss, err := r.storePositions()
	if err != nil {
		return true
	}
	for _, p := range poss {
		if p.CollectionID == coll && p.TaskID == task {
			if pi := p.Positions[pch]; pi != nil && pi.DataPair != nil {
				return true
			}
		}
	}
	return false
}

// consequenceOfNoCheckpoint: every tag is one that a restart skipped because no checkpoint of a collection that existed
// downstream before the task had been stored yet (see onRegistration).
func (r *RigS) consequenceOfNoCheckpoint(key string, tags []int64) bool {
	if len(tags) == 0 || len(r.st.NoCkptSkipped[key]) == 0 {
		return false
	}
	for _, t := range tags {
		found := false
		for _, x := range r.st.NoCkptSkipped[key] {
			found = found || x == t
		}
		if !found {
			return false
		}
	}
	return true
}

// consequenceOfTimeSkip: every tag is one that a resume dropped through the re-stamped checkpoint time (see onRegistration).
func (r *RigS) consequenceOfTimeSkip(key string, tags []int64) bool {
	if len(tags) == 0 || len(r.st.TimeSkipped[key]) == 0 {
		return false
	}
	for _, t := range tags {
		found := false
		for _, x := range r.st.TimeSkipped[key] {
			if x == t {
				found = true
			}
		}
		if !found {
			return false
		}
	}
	return true
}

// tookForwardPath: the message with this id on the source pchannel was part of a pack that the reader handed to another
// channel handler (observed through hook H15).
func (r *RigS) tookForwardPath(coll int64, pch string, seq int) bool {
	for _, rg := range r.st.Forwarded[fmt.Sprintf("%d|%s", coll, pch)] {
		if seq > rg[0] && seq <= rg[1] {
			return true
		}
	}
	return false
}

// consequenceOfOvertaking: every tag is one whose forwarded pack the checkpoint of its source channel had passed.
func (r *RigS) consequenceOfOvertaking(key string, tags []int64) bool {
	if len(tags) == 0 || len(r.st.Overtaken[key]) == 0 {
		return false
	}
	for _, t := range tags {
		found := false
		for _, x := range r.st.Overtaken[key] {
			if x == t {
				found = true
			}
		}
		if !found {
			return false
		}
	}
	return true
}

// partDropped: the (non-default) partition the message belongs to is dropped at the source at some point of the history:
// its rows need not arrive (the reader leaves out messages of partitions that are dropped on both sides, and the replayed
// partition drop may overtake buffered rows) - the at-least-once clause is about rows of live objects.
func (r *RigS) partDropped(e *REntry) bool {
	if e.Part == 0 {
		return false
	}
	if r.partDropMemo == nil {
		r.partDropMemo = map[int64]bool{}
		for _, lg := range r.mq.Logs {
			for _, x := range lg {
				if x.Kind == "dropp" {
					r.partDropMemo[x.Part] = true
				}
			}
		}
		for _, h := range r.sc.History {
			for _, x := range h.Es {
				if x.Kind == "dropp" {
					r.partDropMemo[x.Part] = true
				}
			}
		}
	}
	return r.partDropMemo[e.Part]
}

func (r *RigS) droppedAtSource(coll int64) bool {
	for _, lg := range r.mq.Logs {
		for _, e := range lg {
			if e.Kind == "dropc" && e.Coll == coll {
				return true
			}
		}
	}
	return false
}

// leakedRegistration: a stream of this (downstream, collection, shard) completed its registration while a successful
// pause / delete of its task was in progress (KF registration-in-flight-at-stop): that stream is not stopped, keeps delivering
// and its packs are written once the task runs again.
func (r *RigS) leakedRegistration(owner string, tgt int, coll int64, shard int) bool {
	if r.leakedAtPause[fmt.Sprintf("%d|%d|%d", tgt, coll, shard)] {
		return true
	}
	for _, st := range r.mq.All {
		if st.Coll != coll || st.Shard != shard || st.PCh == replicateChan || r.targetOfStream(st) != tgt {
			continue
		}
		for _, rec := range r.st.OpLog {
			if (rec.K == "pause" || rec.K == "delete") && rec.Task == owner && rec.Code == 200 && rec.Inc == r.plan.Incarnation && st.RegStep >= rec.Issued && st.RegStep <= rec.Step {
				return true
			}
		}
		// the same race when the stop is the clean-up of a collection start that failed (the message queue refused another
		// shard's connection) and the pause the task then makes on its own: the registration completed at or after the
		// refusal, the task was paused by a failure afterwards, and it had not been resumed in between
		for _, f := range r.connFailSteps {
			at, paused := r.bgWriteStep[owner]
			if !paused || at < f || st.RegStep < f {
				continue
			}
			resumedBetween := false
			for _, rec := range r.st.OpLog {
				if rec.K == "resume" && rec.Task == owner && rec.Inc == r.plan.Incarnation && rec.Issued >= f && rec.Issued <= st.RegStep {
					resumedBetween = true
				}
			}
			if !resumedBetween {
				return true
			}
		}
	}
	return false
}

// checkpointFromEarlierRegistration: the checkpoint names a message id that the CURRENT registration of the stream has not
// handed out (or there is no open registration at all) although the task was resumed in this incarnation: the acknowledged
// pack it stems from - possibly a tick-only pack, which no data message identifies - was computed for an earlier
// registration and waited in a queue across the pause / resume (KF stale-pack-after-resume).
func (r *RigS) checkpointFromEarlierRegistration(task string, tgt int, coll int64, shard int, seq int) bool {
	resumed := false
	for _, rec := range r.st.OpLog {
		if rec.K == "resume" && rec.Task == task && rec.Inc == r.plan.Incarnation {
			resumed = true
		}
	}
	if r.opBusy && r.st.InFlight >= 0 && r.sc.Ops[r.st.InFlight].K == "resume" && r.sc.Ops[r.st.InFlight].Task == task {
		resumed = true
	}
	if !resumed {
		return false
	}
	cur := -1
	earlier := false // a registration of this stream that was closed meanwhile handed out a pack ending at this very message id
	for _, st := range r.mq.All {
		if st.Coll != coll || st.Shard != shard || st.PCh == replicateChan || r.targetOfStream(st) != tgt {
			continue
		}
		for _, dp := range st.Delivered {
			if st.Closed && dp.EndSeq == seq {
				earlier = true
			}
			if !st.Closed && dp.EndSeq > cur {
				cur = dp.EndSeq
			}
		}
	}
	if seq > cur || earlier {
		// (second case: the earlier registration's pack - cut differently, e.g. tick-only - overtook the pack with the same end
		// id that the current registration read again)
		r.s.Probe("checkpoint_from_earlier_registration")
		return true
	}
	return false
}

// waitsInBatcher: every lost message travelled in a forwarded pack (hook H15) to the downstream channel of its shard, and
// that downstream channel has not acknowledged anything since the message was read: the pack sits in the write batcher of
// that channel, which flushes by age only when a next pack arrives - and none does, because the handler that owns the
// channel has no stream left (KF forwarded-pack-waits-in-batcher).
func (r *RigS) waitsInBatcher(tgt int, coll int64, shard int, lost []int64) bool {
	c := r.collByID[coll]
	if c == nil || len(lost) == 0 {
		return false
	}
	dc := r.st.SDK[tgt].Colls[c.DB+"/"+c.Name]
	if dc == nil || shard >= len(dc.VCh) {
		return false
	}
	pch := srcPCh(shard)
	for _, tag := range lost {
		seq, step := -1, -1
		for _, st := range r.mq.All {
			if st.Coll != coll || st.Shard != shard || st.PCh == replicateChan || r.targetOfStream(st) != tgt {
				continue
			}
			for _, dp := range st.Delivered {
				for _, e := range dp.Entries {
					if e.Tag == tag && (e.Kind == "ins" || e.Kind == "del") {
						seq, step = e.Seq, dp.Step
					}
				}
			}
		}
		if seq < 0 || !r.tookForwardPath(coll, pch, seq) {
			return false
		}
		// any acknowledgement of a pack with data of ANOTHER stream on the collection's downstream channels after the message
		// was read would have flushed the batcher
		for _, v := range dc.VCh {
			ch := physOf(v)
			for _, a := range r.st.SDK[tgt].Acks {
				if a.Channel == ch && a.Inc == r.plan.Incarnation && a.Step > step+1 {
					// ... unless that pack had been read no later than the message (it stood in front of the message's pack in the
					// batcher: the arrival of the forwarded pack flushes what waited before it, never itself)
					earlier := false
					for _, st := range r.mq.All {
						if st.PCh == replicateChan || r.targetOfStream(st) != tgt {
							continue
						}
						for _, dp := range st.Delivered {
							if dp.EndSeq == a.EndSeq && dp.Step <= step {
								earlier = true
							}
						}
					}
					if !earlier {
						return false
					}
				}
			}
		}
	}
	r.s.Probe("forwarded_pack_waits_in_batcher")
	return true
}

// ackTrace / srcTrace: compact histories for violation reports.
func (r *RigS) ackTrace(tgt int, coll int64, shard int) string {
	c := r.collByID[coll]
	if c == nil {
		return "?"
	}
	var sb strings.Builder
	for _, a := range r.st.SDK[tgt].Acks {
		if !strings.HasSuffix(a.Channel, fmt.Sprintf("_%d", shard)) {
			continue
		}
		var tags []int64
		for _, m := range a.Msgs {
			if (m.Type == "ins" || m.Type == "del") && m.Name == c.Name {
				tags = append(tags, m.Tag)
			}
		}
		if len(tags) > 0 {
			fmt.Fprintf(&sb, "[inc%d step%d end=%d tags=%v]", a.Inc, a.Step, a.EndSeq, tags)
		}
	}
	return sb.String()
}

func (r *RigS) srcTrace(coll int64, shard, from int) string {
	var sb strings.Builder
	for i, e := range r.mq.Logs[srcPCh(shard)] {
		if i >= from && (e.Kind == "ins" || e.Kind == "del") && e.Coll == coll && e.Shard == shard && !r.partDropped(e) {
			fmt.Fprintf(&sb, "[id=%d tag=%d]", e.Seq, e.Tag)
		}
	}
	return sb.String()
}

func domainKey(task string, tgt int, coll int64, shard int) string {
	return fmt.Sprintf("%s|%d|%d|%d", task, tgt, coll, shard)
}

func parseDomainKey(key string) (task string, tgt int, coll int64, shard int) {
	f := strings.Split(key, "|")
	if len(f) != 4 {
		return "", -1, 0, 0
	}
	task = f[0]
	fmt.Sscanf(f[1], "%d", &tgt)
	fmt.Sscanf(f[2], "%d", &coll)
	fmt.Sscanf(f[3], "%d", &shard)
	return
}

// ownerOf: the persisted task on the given downstream whose specification selects the collection ("" if none).
func (r *RigS) ownerOf(tgt int, coll int64) string {
	c := r.collByID[coll]
	if c == nil {
		return ""
	}
	tasks, err := r.storeTasks()
	if err != nil {
		return ""
	}
	owner := ""
	for _, id := range SortedKeys(tasks) {
		ti := tasks[id]
		if ukeyOf(ti) != r.sc.Targets[tgt] {
			continue
		}
		if _, sel := server.GetShouldReadFunc(ti)(&coremodel.DatabaseInfo{Name: c.DB}, collInfoOf(c.Name)); sel {
			owner = id
		}
	}
	if owner == "" {
		// the record may not be written yet (create in flight): the request in flight names the task
		if idx := r.st.InFlight; idx >= 0 && r.sc.Ops[idx].K == "create" && r.sc.Ops[idx].Spec != nil && r.sc.Ops[idx].Spec.tgt() == tgt && specNames(r.sc.Ops[idx].Spec, c.DB, c.Name) {
			owner = r.sc.Ops[idx].Task
		}
	}
	return owner
}

func (r *RigS) acked(tgt int, tag int64) bool {
	for _, a := range r.st.SDK[tgt].Acks {
		for _, m := range a.Msgs {
			if m.Tag == tag && (m.Type == "ins" || m.Type == "del") {
				return true
			}
		}
	}
	return false
}

// ackedLocked is acked for callers that run inside a downstream call (the downstream's lock is held by the caller).
func (r *RigS) ackedLocked(tgt int, tag int64) bool { return r.acked(tgt, tag) }

func (r *RigS) ackedSet(tgt int) map[int64]int {
	out := map[int64]int{}
	for _, a := range r.st.SDK[tgt].Acks {
		for _, m := range a.Msgs {
			if m.Type == "ins" || m.Type == "del" {
				if _, ok := out[m.Tag]; !ok {
					out[m.Tag] = a.Clock
				}
			}
		}
	}
	return out
}

func (r *RigS) unacked(tgt int, coll int64, shard, from, to int) []int64 {
	set := r.ackedSet(tgt)
	var out []int64
	log := r.mq.Logs[srcPCh(shard)]
	for i := from; i < to && i < len(log); i++ {
		e := log[i]
		if (e.Kind == "ins" || e.Kind == "del") && e.Coll == coll && e.Shard == shard {
			if _, ok := set[e.Tag]; !ok {
				out = append(out, e.Tag)
			}
		}
	}
	return out
}

// checkCheckpoints: every persisted checkpoint identifies a position up to which everything is acknowledged; dropped ones are frozen.
// noteCheckpointVersions (C03 runs) remembers every version of every stored checkpoint (message id, time).
func (r *RigS) noteCheckpointVersions() {
	if r.plan.Prop != "C03" {
		return
	}
	poss, err := r.storePositions()
	if err != nil {
		return
	}
	if r.st.CkptHist == nil {
		r.st.CkptHist = map[string][][2]int64{}
	}
	for _, p := range poss {
		for pch, pi := range p.Positions {
			if pi == nil || pi.DataPair == nil {
				continue
			}
			k := fmt.Sprintf("%d|%s", p.CollectionID, pch)
			v := [2]int64{int64(MsgIDToSeq(pi.DataPair.Data)), pi.Time}
			known := false
			for _, x := range r.st.CkptHist[k] {
				known = known || x == v
			}
			if !known {
				r.st.CkptHist[k] = append(r.st.CkptHist[k], v)
			}
		}
	}
}

func (r *RigS) checkCheckpoints() {
	r.noteCheckpointVersions()
	poss, err := r.storePositions()
	if err != nil {
		return
	}
	for _, p := range poss {
		t := r.st.Tasks[p.TaskID]
		if t == nil || t.Spec == nil || p.CollectionID <= 0 {
			continue
		}
		tgt := t.Spec.tgt()
		if tgt < 0 {
			continue
		}
		fk := fmt.Sprintf("%s/%d", p.TaskID, p.CollectionID)
		cb, _ := json.Marshal(p.Positions)
		canon := string(cb)
		anyDropped := false
		for _, pi := range p.Positions {
			if pi.Dropped {
				anyDropped = true
			}
		}
		if old, ok := r.st.Frozen[fk]; ok {
			if old != canon {
				cls := ""
				if r.st.PosRace[fmt.Sprintf("%s/%d", p.TaskID, p.CollectionID)] {
					cls = "_concurrent_checkpoint_updates"
				}
				r.s.Violate("C05", "dropped_checkpoint_changed"+cls, "checkpoint of task %s collection %d changed after the drop was recorded: %s -> %s", p.TaskID, p.CollectionID, old, canon)
			}
			continue
		}
		if anyDropped {
			r.st.Frozen[fk] = canon
			r.s.Probe("checkpoint_frozen")
			continue
		}
		set := r.ackedSet(tgt)
		for pch, pi := range p.Positions {
			if pi.DataPair == nil {
				continue
			}
			seq := MsgIDToSeq(pi.DataPair.Data)
			shard := shardOfSrcPCh(pch)
			if shard < 0 || seq < 0 {
				continue
			}
			key := domainKey(p.TaskID, tgt, p.CollectionID, shard)
			from, ok := r.st.Domain[key]
			if !ok {
				continue // never streamed in this run: a start position written at create time
			}
			log := r.mq.Logs[pch]
			var un []int64
			unForwarded := true
			for i := from; i < len(log); i++ {
				e := log[i]
				if e.Seq > seq {
					break
				}
				if (e.Kind == "ins" || e.Kind == "del") && e.Coll == p.CollectionID && e.Shard == shard && !r.partDropped(e) {
					if _, ok := set[e.Tag]; !ok {
						un = append(un, e.Tag)
						unForwarded = unForwarded && r.tookForwardPath(p.CollectionID, pch, e.Seq)
					}
				}
			}
			r.s.Probe("checkpoint_checked")
			if len(un) > 0 && r.droppedAtSource(p.CollectionID) {
				// the reader leaves out rows of a collection that is already dropped at the source
				un = nil
			}
			if len(un) > 0 {
				cls := ""
				if r.leakedRegistration(p.TaskID, tgt, p.CollectionID, shard) {
					cls = "_registration_in_flight_at_stop"
				}
				if r.st.StaleAck[fmt.Sprintf("%d|%d|%d", tgt, p.CollectionID, shard)] || r.checkpointFromEarlierRegistration(p.TaskID, tgt, p.CollectionID, shard, seq) {
					cls = "_stale_pack_after_resume"
					// (remembered: a later resume from this checkpoint skips the same messages)
					r.st.StaleAck[fmt.Sprintf("%d|%d|%d", tgt, p.CollectionID, shard)] = true
				}
				if r.consequenceOfTimeSkip(key, un) {
					cls = "_after_restamped_time_skip"
				}
				if r.consequenceOfNoCheckpoint(key, un) {
					cls = "_after_start_without_checkpoint"
				}
				if cls == "" && unForwarded {
					// every unacknowledged message travelled in a forwarded pack (on another downstream channel), while later
					// packs of the same source stream were acknowledged on the handler's own channel
					cls = "_forwarded_pack_overtaken"
					r.st.Overtaken[key] = append(r.st.Overtaken[key], un...)
				}
				r.s.Violate("C05", "checkpoint_ahead"+cls, "persisted checkpoint of task %s collection %d on %s is msg id %d but messages %v up to it were never acknowledged by the downstream (acknowledged packs with data of that collection so far: %s; source: %s; record: %s)", p.TaskID, p.CollectionID, pch, seq, un, r.ackTrace(tgt, p.CollectionID, shard), r.srcTrace(p.CollectionID, shard, from), canon)
			}
		}
	}
}

// ------------------------------------------------------------------ responses

func (r *RigS) judgeResponse(o *SOpRec) {
	op := &r.sc.Ops[o.Idx]
	method := op.Method
	if method == "" {
		method = "POST"
	}
	if o.Code == -1 {
		r.s.Violate("C19", "not_json", "request %d (%s): %s", o.Idx, op.K, o.Msg)
		return
	}
	if method != "POST" {
		if o.Code != 405 {
			r.s.Violate("C19", "method_code", "request %d with method %s answered code %d, want 405", o.Idx, method, o.Code)
		}
	} else if o.Code != 200 && o.Code != 400 && o.Code != 500 {
		r.s.Violate("C19", "code_range", "request %d (%s) answered code %d", o.Idx, op.K, o.Code)
	}
	if op.MustReject && o.Code == 200 {
		r.s.Violate("C19", "invalid_accepted", "semantically invalid request %d accepted: %s", o.Idx, trunc(op.Body, 300))
	}
	if o.Code != 200 {
		r.s.Probe("rejected_request")
	}
	// model bookkeeping
	t := r.st.Tasks[op.Task]
	faulty := o.Faults > 0
	switch op.K {
	case "create":
		if o.Code == 200 {
			if t == nil {
				t = &SMTask{ID: op.Task, Spec: op.Spec, State: "Running"}
				r.st.Tasks[op.Task] = t
			}
			t.Fuzzy = t.Fuzzy || faulty
		} else if t == nil && faulty {
			// may or may not have left a record: resolved against the store at the next quiescent point
			r.st.Tasks[op.Task] = &SMTask{ID: op.Task, Spec: op.Spec, Fuzzy: true, State: "?"}
		}
	case "pause":
		if t != nil {
			if o.Code == 200 {
				if t.State == "Paused" && !t.Fuzzy && r.stateBefore(op.Task) == "Paused" && !r.st.Overlap[op.Task] {
					r.s.Violate("C11", "pause_of_paused_accepted", "pause of the paused task %s answered 200", op.Task)
				}
				t.State = "Paused"
				t.OpPause = true
			} else if !faulty && !t.Fuzzy && t.State == "Running" && r.stateBefore(op.Task) == "Running" && !r.st.Overlap[op.Task] && !strings.Contains(o.Msg, "the task has paused") {
				r.s.Violate("C11", "pause_rejected", "pause of the running task %s answered %d: %s", op.Task, o.Code, o.Msg)
			}
			t.Fuzzy = t.Fuzzy || faulty
		} else if o.Code == 200 {
			r.s.Violate("C11", "unknown_task_accepted"+r.ghostClass(op.Task), "pause of unknown task %s answered 200", op.Task)
		}
	case "resume":
		if t != nil {
			if o.Code == 200 {
				if t.State == "Running" && !t.Fuzzy && r.stateBefore(op.Task) == "Running" && !r.st.Overlap[op.Task] {
					r.s.Violate("C11", "resume_of_running_accepted", "resume of the running task %s answered 200", op.Task)
				}
				t.State = "Running"
				t.OpPause = false
			} else if !faulty && !t.Fuzzy && t.State == "Paused" && r.stateBefore(op.Task) == "Paused" && !r.st.Overlap[op.Task] && !r.targetFaulted() {
				r.s.Violate("C11", "resume_rejected", "resume of the paused task %s answered %d: %s", op.Task, o.Code, o.Msg)
			}
			t.Fuzzy = t.Fuzzy || faulty
		} else if o.Code == 200 {
			r.s.Violate("C11", "unknown_task_accepted"+r.ghostClass(op.Task), "resume of unknown task %s answered 200", op.Task)
		}
	case "delete":
		if t != nil {
			if o.Code == 200 {
				delete(r.st.Tasks, op.Task)
			} else if !faulty && !t.Fuzzy {
				r.s.Violate("C11", "delete_rejected", "delete of task %s answered %d: %s", op.Task, o.Code, o.Msg)
			} else {
				t.Fuzzy = true
			}
		}
	}
}

// ghostClass: a task the model does not know (never created successfully, or deleted) can still be known to the service
// through one of the known store defects: its record was written back after its deletion, or a write concerning it was
// applied but reported as failed.
func (r *RigS) ghostClass(task string) string {
	if r.st.Rewritten[task] {
		return "_record_rewritten_after_delete"
	}
	if r.st.Ambiguous[task] {
		return "_after_ambiguous_store_error"
	}
	return ""
}

// stateBefore: the in-memory state of the task in the snapshot taken right before the request in flight was issued
// ("" when the request was issued at a non-quiescent point, where a background pause may have been under way).
func (r *RigS) stateBefore(task string) string {
	if !r.haveBefore {
		return ""
	}
	var sn struct {
		Tasks map[string]struct{ State string } `json:"tasks"`
	}
	if json.Unmarshal([]byte(r.snapBefore), &sn) != nil {
		return ""
	}
	return sn.Tasks[task].State
}

// faultTotal: every fault injected so far except crashes.
func (r *RigS) faultTotal() int {
	n := 0
	for k, v := range r.s.Stats {
		if strings.HasPrefix(k, "fault:") && k != "fault:crash" {
			n += v
		}
	}
	return n
}

func (r *RigS) targetFaulted() bool {
	for k, v := range r.s.Stats {
		if v > 0 && (k == "fault:tq_err" || k == "fault:ddl_reject_before" || k == "fault:dw_err") {
			return true
		}
	}
	return false
}

// apiGet asks the service through its HTTP handler (seams in pass-through mode).
func (r *RigS) apiGet(kind, task string) (int, map[string]any) {
	var code int
	var data map[string]any
	r.obs(func() {
		body, _ := json.Marshal(map[string]any{"request_type": kind, "request_data": map[string]any{"task_id": task}})
		rec := httptest.NewRecorder()
		req, _ := http.NewRequest("POST", "/cdc", strings.NewReader(string(body)))
		r.handler.ServeHTTP(rec, req)
		raw := rec.Body.String()
		if strings.Contains(raw, canaryToken) || strings.Contains(raw, canaryPass) {
			r.s.Violate("C18", "secret_in_response", "response to %s contains a credential: %s", kind, trunc(raw, 300))
		}
		var resp struct {
			Code int            `json:"code"`
			Data map[string]any `json:"data"`
		}
		if err := json.Unmarshal([]byte(raw), &resp); err != nil {
			code = -1
			return
		}
		code, data = resp.Code, resp.Data
	})
	return code, data
}

// ------------------------------------------------------------------ quiescent-point checks

func (r *RigS) afterReload() {
	r.pendingOp = &SOpRec{Idx: -1, K: "reload", Code: 200}
}

func (r *RigS) afterOpQuiescent(o *SOpRec) {
	sn, ok := r.cdc.VerifTrySnapshot()
	if !ok {
		r.s.Probe("snapshot_busy")
		return
	}
	r.s.Probe("quiescent_check")
	tasks, err := r.storeTasks()
	if err != nil {
		return
	}
	// resolve fuzzy model entries against the store
	for id, t := range r.st.Tasks {
		if t.Fuzzy || t.State == "?" {
			if st, ok := tasks[id]; ok {
				t.State = st.State.String()
				if t.State == "Initial" {
					t.State = "?"
				}
			} else {
				delete(r.st.Tasks, id)
			}
		}
	}
	clean := o.Faults == 0
	if o.K == "reload" {
		clean = r.faultTotal() == r.faultsAtStart
		r.checkReload(tasks, sn, clean)
	}
	r.checkViews(tasks, sn, o)
	r.checkOwnership(tasks, sn, o, clean)
	// C19 / C10: a rejected request is free of side effects
	if o.Idx >= 0 && o.Code != 200 && clean && r.haveBefore {
		after := canonSnap(sn)
		op := &r.sc.Ops[o.Idx]
		if after != r.snapBefore {
			r.s.Violate("C19", "reject_changed_bookkeeping"+r.anyClass(tasks), "request %d (%s %s) was rejected with %d but the bookkeeping changed: %s -> %s", o.Idx, op.K, op.Task, o.Code, r.snapBefore, after)
			if op.K == "create" {
				r.s.Violate("C10", "reject_changed_bookkeeping"+r.anyClass(tasks), "create %d (%s) was rejected with %d but the bookkeeping changed: %s -> %s", o.Idx, op.Task, o.Code, r.snapBefore, after)
			}
		}
		if st := r.rawStore(); st != r.storeBefore && r.noDataFlow() {
			r.s.Violate("C19", "reject_changed_store"+r.anyClass(tasks), "request %d (%s %s) was rejected with %d but the persisted state changed: %s -> %s", o.Idx, op.K, op.Task, o.Code, trunc(r.storeBefore, 600), trunc(st, 600))
		}
		r.s.Probe("reject_side_effect_checked")
	}
}

func (r *RigS) noDataFlow() bool {
	for _, h := range r.sc.History {
		if !h.Pre {
			return false
		}
	}
	return true
}

func (r *RigS) checkReload(tasks map[string]*meta.TaskInfo, sn server.VerifSnapshot, clean bool) {
	if r.plan.Incarnation == 0 {
		return
	}
	r.s.Probe("reload_checked")
	for id, ti := range tasks {
		mem, ok := sn.Tasks[id]
		if !ok {
			r.s.Violate("C11", "reload_missing_task", "persisted task %s is not in memory after the restart", id)
			continue
		}
		if t := r.st.Tasks[id]; t != nil {
			t.State = mem.State
			t.OpPause = false
		}
		if !clean {
			continue
		}
		want := "Running"
		if ti.DisableAutoStart {
			want = "Paused"
		}
		if mem.State == "Paused" && want == "Running" && (strings.HasPrefix(mem.Reason, "fail to read the message") || strings.Contains(mem.Reason, "context canceled")) {
			// (the second form: the reader gave up, the task was torn down, and an event that was being applied at that
			// moment failed with the cancelled context and set the reason last)
			// started, then stopped itself: the downstream was slower than the reader's retry budget (scheduler's choice)
			r.s.Probe("task_paused_itself")
		} else if mem.State != want && !r.targetFaulted() {
			r.s.Violate("C11", "reload_state", "after the restart task %s (disable_auto_start=%v) is %s in memory, want %s (reason %q)", id, ti.DisableAutoStart, mem.State, want, mem.Reason)
		}
		if t := r.st.Tasks[id]; t != nil {
			t.State = mem.State
			t.OpPause = false
		}
	}
}

// Known weak spots get their own rule names so that they can be listed as findings without hiding anything else:
//
//	orphan    - the store holds a task in state Initial whose create request was answered with an error while store faults were injected
//	            (the clean-up of a failed create failed too, or the record write was applied but reported as failed)
//	ambiguous - a store write concerning the task was applied but reported as failed (store_err_after)
//
// storeFaultsNow: store faults injected in this incarnation.
func (r *RigS) storeFaultsNow() int {
	return r.s.Stats["fault:store_err_before"] + r.s.Stats["fault:store_err_after"] - r.storeFaultsAtStart
}

func (r *RigS) taskClass(id string, tasks map[string]*meta.TaskInfo) string {
	if _, ok := tasks[id]; ok {
		orphan := false
		for _, rec := range r.st.OpLog {
			if rec.K == "create" && rec.Task == id {
				orphan = rec.Code != 200 && rec.Faults > 0
			}
		}
		if orphan {
			return "orphan"
		}
	}
	if r.st.Rewritten[id] {
		return "rewritten"
	}
	if r.st.Ambiguous[id] {
		return "ambiguous"
	}
	if r.st.Overlap[id] {
		return "overlap"
	}
	return ""
}

func (r *RigS) classOf(tasks map[string]*meta.TaskInfo, ids ...string) string {
	out := ""
	for _, id := range ids {
		switch r.taskClass(id, tasks) {
		case "orphan":
			return "_orphan_record_of_failed_create"
		case "rewritten":
			return "_record_rewritten_after_delete"
		case "ambiguous":
			out = "_after_ambiguous_store_error"
		case "overlap":
			if out == "" {
				out = "_background_transition_overlaps_request"
			}
		}
	}
	return out
}

func (r *RigS) anyClass(tasks map[string]*meta.TaskInfo) string {
	ids := SortedKeys(tasks)
	for id := range r.st.Ambiguous {
		ids = append(ids, id)
	}
	for id := range r.st.Rewritten {
		ids = append(ids, id)
	}
	for id := range r.st.Overlap {
		ids = append(ids, id)
	}
	sort.Strings(ids)
	return r.classOf(tasks, ids...)
}

// checkViews (C11): API, store, memory and gauges agree; resources match the running tasks.
func (r *RigS) checkViews(tasks map[string]*meta.TaskInfo, sn server.VerifSnapshot, o *SOpRec) {
	g := r.gauges()
	ids := map[string]bool{}
	for id := range tasks {
		ids[id] = true
	}
	for id := range sn.Tasks {
		ids[id] = true
	}
	for id := range g {
		ids[id] = true
	}
	running := map[string][]string{} // target uri -> running task ids (memory view)
	for _, id := range SortedKeys(ids) {
		var views []string
		stv, memv, gv, apiv := "absent", "absent", "absent", "absent"
		if t, ok := tasks[id]; ok {
			stv = t.State.String()
		}
		if t, ok := sn.Tasks[id]; ok {
			memv = t.State
		}
		if s, ok := g[id]; ok {
			gv = s
		}
		code, data := r.apiGet("get", id)
		if code == 200 {
			if tk, ok := data["task"].(map[string]any); ok {
				apiv, _ = tk["state"].(string)
				if apiv == "Paused" {
					if reason, _ := tk["reason"].(string); reason == "" {
						r.s.Violate("C06", "paused_without_reason", "task %s is Paused but get shows no reason", id)
					}
				}
			}
		}
		views = []string{apiv, stv, memv, gv}
		if !(apiv == stv && stv == memv && memv == gv) {
			cls := r.classOf(tasks, id)
			if cls == "" && memv == "Paused" && (stv == "Running" || stv == "Initial") && sn.Tasks[id].Reason != "" && !strings.HasPrefix(sn.Tasks[id].Reason, "manually pause") && r.storeFaultsNow() > 0 {
				// the task stopped because of a failure while the store was failing too: Paused only in memory
				cls = "_failure_pause_not_persisted"
			}
			r.s.Violate("C11", "views_disagree"+cls, "task %s after %s: api=%s store=%s memory=%s gauge=%s (reason %q)", id, o.K, views[0], views[1], views[2], views[3], sn.Tasks[id].Reason)
			if m := r.st.Tasks[id]; m != nil && cls != "" {
				m.Fuzzy = true // the views of this task already disagree (known class): what later requests on it answer is not judged
			}
		}
		if memv != "absent" && memv != "Initial" && memv != "Running" && memv != "Paused" {
			r.s.Violate("C11", "bad_state", "task %s is in state %q", id, memv)
		}
		if memv == "Running" {
			if t, ok := tasks[id]; ok {
				uri := ukeyOf(t)
				running[uri] = append(running[uri], id)
			}
		}
		if m := r.st.Tasks[id]; m != nil && memv == "Paused" && m.State == "Running" && !strings.HasPrefix(sn.Tasks[id].Reason, "manually pause") && sn.Tasks[id].Reason != "" {
			// the task stopped itself (e.g. the downstream was too slow for its retries): legitimate, and visible with its reason
			m.State = "Paused"
			r.s.Probe("task_paused_itself")
		}
		if m := r.st.Tasks[id]; m != nil && !m.Fuzzy && m.State != "?" && memv != "absent" && memv != m.State && r.noDataFlow() && !r.targetFaulted() {
			r.s.Violate("C11", "unexpected_state", "task %s should be %s after the accepted requests but is %s (reason %q)", id, m.State, memv, sn.Tasks[id].Reason)
		}
	}
	// deleted tasks leave nothing behind
	raw := r.rawStore()
	for _, rec := range r.st.OpLog {
		if rec.K == "delete" && rec.Code == 200 {
			if _, again := r.st.Tasks[rec.Task]; again {
				continue
			}
			if strings.Contains(raw, rec.Task) {
				var kinds []string
				// (drop-message readiness records are neither the task record nor a checkpoint: not judged here)
				for _, k := range []string{"task_info", "task_position"} {
					if strings.Contains(raw, k+"/"+rec.Task+"/") || strings.Contains(raw, k+"/"+rec.Task+"\"") {
						kinds = append(kinds, k)
					}
				}
				cls := r.classOf(tasks, rec.Task)
				if len(kinds) == 1 && kinds[0] == "task_position" && r.st.RewrittenPos[rec.Task] {
					// a checkpoint update that was in flight when the delete came wrote the checkpoint back after the delete transaction
					cls = "_checkpoint_rewritten_after_delete"
				}
				if len(kinds) > 0 {
					r.s.Violate("C11", "delete_leftover"+cls, "task %s was deleted but the store still holds records of it (%v)", rec.Task, kinds)
				}
			}
		}
	}
	// per-target resources
	for uri, ent := range sn.Entities {
		want := running[uri]
		sort.Strings(want)
		if int(ent.RefCnt) != len(want) || strings.Join(ent.QuitFuncs, ",") != strings.Join(want, ",") {
			r.s.Violate("C11", "entity_refcount"+r.classOf(tasks, append(append([]string(nil), ent.QuitFuncs...), want...)...), "target %s: reference count %d, stop functions %v, running tasks %v", uri, ent.RefCnt, ent.QuitFuncs, want)
		}
	}
	for uri, ts := range running {
		if _, ok := sn.Entities[uri]; !ok && len(ts) > 0 {
			r.s.Violate("C11", "entity_missing"+r.classOf(tasks, ts...), "target %s has running tasks %v but no replication entity", uri, ts)
		}
	}
	// readers of tasks that are not running
	for _, st := range r.mq.Streams() {
		if st.PCh == replicateChan {
			task := strings.TrimSuffix(strings.TrimPrefix(st.VCh, replicateChan+"_"), "v0")
			if t, ok := sn.Tasks[task]; !ok || t.State != "Running" {
				r.s.Violate("C11", "reader_of_stopped_task"+r.classOf(tasks, task), "task %s is not running but its operation-channel stream %s is still registered", task, st.Key())
			}
			continue
		}
		tgt := r.targetOfStream(st)
		if tgt < 0 {
			continue
		}
		uri := r.sc.Targets[tgt]
		owner := ""
		c := r.collByID[st.Coll]
		if c == nil {
			continue
		}
		{
			for _, id := range running[uri] {
				_, sel := server.GetShouldReadFunc(tasks[id])(&coremodel.DatabaseInfo{Name: c.DB}, collInfoOf(c.Name))
				if sel {
					owner = id
				}
			}
		}
		if owner == "" {
			cls := r.anyClass(tasks)
			if cls == "" {
				for _, rec := range r.st.OpLog {
					if (rec.K == "pause" || rec.K == "delete") && rec.Code == 200 && rec.Inc == r.plan.Incarnation && st.RegStep >= rec.Issued {
						// the stream was being registered when the stop request came (start of the collection still in progress)
						cls = "_registration_in_flight_at_stop"
					}
				}
			}
			if cls == "" {
				// the same race with a pause the task made on its own (a failure): the registration completed at or after
				// the step in which the Paused state was written
				for _, id := range SortedKeys(tasks) {
					ti := tasks[id]
					if ukeyOf(ti) != uri || ti.State != meta.TaskStatePaused {
						continue
					}
					if _, sel := server.GetShouldReadFunc(ti)(&coremodel.DatabaseInfo{Name: c.DB}, collInfoOf(c.Name)); sel {
						if at, ok := r.bgWriteStep[id]; ok && st.RegStep >= at {
							cls = "_registration_in_flight_at_stop"
						}
					}
				}
			}
			r.s.Violate("C11", "reader_of_stopped_task"+cls, "stream %s is still registered although no running task on %s selects collection %d", st.Key(), uri, st.Coll)
		}
	}
}

// ukeyOf: the downstream a task replicates to (the key of the per-target resources and bookkeeping).
func ukeyOf(t *meta.TaskInfo) string {
	if t.MilvusConnectParam.URI != "" {
		return t.MilvusConnectParam.URI
	}
	return t.KafkaConnectParam.Address
}

func collInfoOf(name string) *pb.CollectionInfo {
	return &pb.CollectionInfo{Schema: &schemapb.CollectionSchema{Name: name}}
}

var uniDBs = []string{"default", "dbx", "other"}
var uniColls = []string{"c1", "c2", "c3", "zz"}

// checkOwnership (C10).
func (r *RigS) checkOwnership(tasks map[string]*meta.TaskInfo, sn server.VerifSnapshot, o *SOpRec, clean bool) {
	byTarget := map[string][]string{}
	for id, t := range tasks {
		byTarget[ukeyOf(t)] = append(byTarget[ukeyOf(t)], id)
	}
	for _, uri := range SortedKeys(byTarget) {
		ids := byTarget[uri]
		sort.Strings(ids)
		for _, db := range uniDBs {
			for _, c := range uniColls {
				var owners []string
				for _, id := range ids {
					ti := tasks[id]
					_, data := server.GetShouldReadFunc(ti)(&coremodel.DatabaseInfo{Name: db}, collInfoOf(c))
					infos := server.GetCollectionInfos(ti, db, c)
					ddl := infos != nil && server.MatchCollection(ti, infos, db, c)
					if data != ddl {
						r.s.Violate("C10", "paths_disagree", "task %s, %s.%s: stream selection says %v, DDL-message selection says %v", id, db, c, data, ddl)
					}
					if data {
						owners = append(owners, id)
					}
					if m := r.st.Tasks[id]; m != nil && m.Spec != nil && !specNames(m.Spec, db, c) && data {
						r.s.Violate("C10", "selects_unnamed", "task %s selects %s.%s which its specification does not name", id, db, c)
					}
				}
				if len(owners) > 1 {
					r.s.Violate("C10", "two_owners"+r.classOf(tasks, owners...), "on target %s the collection %s.%s is selected by tasks %v", uri, db, c, owners)
				}
				// a task selects what its specification names minus its recorded exclusions
				for _, id := range ids {
					m := r.st.Tasks[id]
					if m == nil || m.Spec == nil || !specNames(m.Spec, db, c) || contains(owners, id) {
						continue
					}
					excluded := false
					for _, x := range tasks[id].ExcludeCollections {
						if x == db+"."+c || x == db+".*" || x == "*.*" {
							excluded = true
						}
					}
					if !excluded {
						r.s.Violate("C10", "named_not_selected", "task %s names %s.%s, has no exclusion for it (%v), but does not select it", id, db, c, tasks[id].ExcludeCollections)
					}
				}
			}
		}
	}
	r.s.Probe("ownership_checked")
	// bookkeeping equals what the persisted tasks imply (after delete, failed create, restart)
	if !(o.K == "delete" || o.K == "reload" || (o.K == "create" && o.Code != 200) || o.K == "raw") {
		return
	}
	impl := server.VerifSnapshot{CollectionNames: map[string][]string{}, ExcludeData: map[string][]string{}, EnableUserRole: map[string]bool{}}
	for _, id := range SortedKeys(tasks) {
		ti := tasks[id]
		uri := ukeyOf(ti)
		impl.CollectionNames[uri] = append(impl.CollectionNames[uri], server.GetCollectionNamesFromTaskInfo(ti)...)
		for _, x := range ti.ExcludeCollections {
			if !contains(impl.ExcludeData[uri], x) {
				impl.ExcludeData[uri] = append(impl.ExcludeData[uri], x)
			}
		}
		if ti.ExtraInfo.EnableUserRole {
			impl.EnableUserRole[uri] = true
		}
	}
	for _, m := range []map[string][]string{impl.CollectionNames, impl.ExcludeData} {
		for _, v := range m {
			sort.Strings(v)
		}
	}
	a, b := canonBook(sn), canonBook(impl)
	if a != b && clean {
		r.s.Violate("C10", "bookkeeping_differs"+r.anyClass(tasks), "after %s (request %d, code %d) the duplicate-detection bookkeeping is %s but the persisted tasks imply %s", o.K, o.Idx, o.Code, a, b)
	}
	r.s.Probe("bookkeeping_checked")
}

func contains(xs []string, x string) bool {
	for _, y := range xs {
		if y == x {
			return true
		}
	}
	return false
}

func canonBook(sn server.VerifSnapshot) string {
	uniq := func(m map[string][]string) map[string][]string {
		o := map[string][]string{}
		for k, v := range m {
			var u []string
			for _, x := range v {
				if !contains(u, x) {
					u = append(u, x)
				}
			}
			sort.Strings(u)
			if len(u) > 0 {
				o[k] = u
			}
		}
		return o
	}
	ur := map[string]bool{}
	for k, v := range sn.EnableUserRole {
		if v {
			ur[k] = true
		}
	}
	b, _ := json.Marshal(map[string]any{"names": uniq(sn.CollectionNames), "exclude": uniq(sn.ExcludeData), "user_role": ur})
	return string(b)
}

func specNames(sp *SSpec, db, coll string) bool {
	sdb := sp.DB
	if sdb == "" {
		sdb = "default"
	}
	return (sdb == "*" || sdb == db) && (sp.Coll == "*" || sp.Coll == coll)
}

// ------------------------------------------------------------------ end of run

func (r *RigS) finalOracles() {
	s := r.s
	tasks, err := r.storeTasks()
	if err != nil {
		return
	}
	sn, ok := r.cdc.VerifTrySnapshot()
	if ok && len(s.Parked()) == 0 {
		r.checkViews(tasks, sn, &SOpRec{Idx: -1, K: "end"})
		r.checkOwnership(tasks, sn, &SOpRec{Idx: -1, K: "end"}, false)
	} else {
		s.Probe("final_not_quiescent")
	}
	if r.plan.Prop == "C04" {
		r.noteDropRequests()
		r.checkDrops(tasks, sn, ok && len(s.Parked()) == 0)
		r.checkPartitionDrops(tasks, sn, ok && len(s.Parked()) == 0)
		return
	}
	if r.plan.Prop == "C03" {
		r.checkAckTime()
	}
	if r.plan.Prop != "C05" && r.plan.Prop != "C06" {
		return
	}
	r.checkCheckpoints()
	// innocent tasks keep their state (C06)
	for id, t := range r.st.Tasks {
		ti := tasks[id]
		if ti == nil || t.Spec == nil {
			continue
		}
		if ti.State == meta.TaskStatePaused && !t.OpPause {
			s.Probe("task_paused_by_failure")
		}
	}
	// a task that runs keeps its share of the replication machinery of its downstream, whatever happened to its neighbours
	if ok && len(s.Parked()) == 0 {
		for _, id := range SortedKeys(tasks) {
			ti := tasks[id]
			if ti.State != meta.TaskStateRunning || sn.Tasks[id].State != "Running" {
				continue
			}
			ent, have := sn.Entities[ukeyOf(ti)]
			if !have || !contains(ent.QuitFuncs, id) {
				s.Violate("C06", "running_task_lost_its_replication"+r.classOf(tasks, SortedKeys(tasks)...), "task %s is Running (store and memory) but the replication entity of %s is gone or does not hold it (entity present: %v)", id, ukeyOf(ti), have)
			}
		}
	}
	// the task whose write the downstream rejected ends Paused with a reason (unless the operator resumed it afterwards,
	// or the process was restarted, which starts it again)
	for _, rej := range r.st.Rejected {
		ti := tasks[rej.Task]
		if ti == nil || rej.Inc != r.plan.Incarnation {
			continue
		}
		resumed := false
		for _, rec := range r.st.OpLog {
			if rec.Task == rej.Task && rec.Inc == rej.Inc && rec.Step >= rej.Step && (rec.K == "resume" || rec.K == "pause" || rec.K == "delete" || rec.K == "create") {
				resumed = true
			}
		}
		if resumed {
			continue
		}
		s.Probe("rejected_write_checked")
		if ti.State != meta.TaskStatePaused || ti.Reason == "" {
			cls := r.classOf(tasks, rej.Task)
			if mem, have := sn.Tasks[rej.Task]; cls == "" && ok && have && mem.State == "Paused" && mem.Reason != "" && r.storeFaultsNow() > 0 {
				// the task did stop, but the store refused the state update too: Paused in memory only (known finding of C11)
				cls = "_failure_pause_not_persisted"
			}
			s.Violate("C06", "failing_task_not_paused"+cls, "the downstream rejected a write of task %s at step %d, but the task ends %s (reason %q)", rej.Task, rej.Step, ti.State.String(), ti.Reason)
		}
	}
	// first acknowledgements arrive in source order without gaps (a failing message is never skipped), and
	// every message of the domain reaches the downstream when the owning task is still running (liveness)
	for _, key := range SortedKeys(r.st.Domain) {
		dtask, tgt, coll, shard := parseDomainKey(key)
		if tgt < 0 {
			continue
		}
		set := r.ackedSet(tgt)
		log := r.mq.Logs[srcPCh(shard)]
		type ent struct {
			tag   int64
			clock int
			ok    bool
		}
		var es []ent
		for i := r.st.Domain[key]; i < len(log); i++ {
			e := log[i]
			if (e.Kind == "ins" || e.Kind == "del") && e.Coll == coll && e.Shard == shard && !r.partDropped(e) {
				c, ok := set[e.Tag]
				es = append(es, ent{e.Tag, c, ok})
			}
		}
		for i := 1; i < len(es) && !r.droppedAtSource(coll); i++ {
			if es[i].ok && (!es[i-1].ok || es[i-1].clock > es[i].clock) {
				cls := ""
				if r.leakedRegistration(dtask, tgt, coll, shard) {
					cls = "_registration_in_flight_at_stop"
				}
				if r.st.StaleAck[fmt.Sprintf("%d|%d|%d", tgt, coll, shard)] {
					cls = "_stale_pack_after_resume"
				}
				if !es[i-1].ok && r.consequenceOfTimeSkip(key, []int64{es[i-1].tag}) {
					cls = "_after_restamped_time_skip"
				}
				if !es[i-1].ok && r.consequenceOfNoCheckpoint(key, []int64{es[i-1].tag}) {
					cls = "_after_start_without_checkpoint"
				}
				if !es[i-1].ok && r.consequenceOfOvertaking(key, []int64{es[i-1].tag}) {
					cls = "_forwarded_pack_overtaken"
				}
				s.Violate("C06", "message_skipped"+cls, "target %d collection %d shard %d: message %d was acknowledged while the earlier message %d was not (yet)", tgt, coll, shard, es[i].tag, es[i-1].tag)
				break
			}
		}
		// liveness
		c := r.collByID[coll]
		if c == nil {
			continue
		}
		owner := dtask
		if tasks[owner] == nil {
			continue // the task was deleted
		}
		m := r.st.Tasks[owner]
		if tasks[owner].State != meta.TaskStateRunning || m == nil || !ok || sn.Tasks[owner].State != "Running" {
			// (a task that is Paused in memory only is a disagreement of the views, judged by the lifecycle check)
			s.Probe("owner_not_running_at_end")
			continue
		}
		var lost []int64
		for _, e := range es {
			if !e.ok {
				lost = append(lost, e.tag)
			}
		}
		if r.droppedAtSource(coll) {
			// rows of a collection that is dropped at the source need not arrive before (or after) the replayed drop
			s.Probe("liveness_skipped_dropped_collection")
			continue
		}
		s.Probe("liveness_checked")
		if len(lost) > 0 {
			cls := r.classOf(tasks, owner)
			if cls == "" && r.bgPaused[tgt] {
				cls = "_bystander_of_failed_task"
			}
			if cls == "" {
				for id2, t2 := range tasks {
					if id2 != owner && ukeyOf(t2) == ukeyOf(tasks[owner]) && t2.State == meta.TaskStatePaused && t2.Reason != "" && !strings.HasPrefix(t2.Reason, "manually pause") {
						// a task on the same downstream stopped because of a failure: the per-channel / per-downstream loops of the
						// shared replication entity return after a failure and nobody serves the healthy task any more
						cls = "_bystander_of_failed_task"
					}
				}
			}
			if cls == "" && ok {
				// ... also when the failure pause of the neighbour could not be persisted (it is Paused in memory only)
				for id2, m2 := range sn.Tasks {
					if id2 != owner && tasks[id2] != nil && ukeyOf(tasks[id2]) == ukeyOf(tasks[owner]) && m2.State == "Paused" && m2.Reason != "" && !strings.HasPrefix(m2.Reason, "manually pause") {
						cls = "_bystander_of_failed_task"
					}
				}
			}
			if cls == "" && r.bgTouched[tgt] {
				// ... and when the failure pause of a task on this downstream left no trace (the operator had paused that task
				// already, or the store refused the write) and the operator resumed it afterwards: it is Running again, but the
				// loops that returned at the failure are not started again while the entity lives
				for _, o := range r.st.OpLog {
					if t := r.st.Tasks[o.Task]; o.K == "resume" && o.Code == 200 && o.Inc == r.plan.Incarnation && t != nil && t.Spec != nil && t.Spec.tgt() == tgt {
						cls = "_bystander_of_failed_task"
					}
				}
			}
			if r.consequenceOfTimeSkip(key, lost) {
				cls = "_after_restamped_time_skip"
			}
			if r.consequenceOfNoCheckpoint(key, lost) {
				cls = "_after_start_without_checkpoint"
			}
			if r.consequenceOfOvertaking(key, lost) {
				cls = "_forwarded_pack_overtaken"
			}
			if cls == "" && r.waitsInBatcher(tgt, coll, shard, lost) {
				cls = "_forwarded_pack_waits_in_batcher"
			}
			s.Violate("C05", "lost_message"+cls, "task %s is running and idle at the end, but messages %v of collection %d shard %d never reached target %d", owner, lost, coll, shard, tgt)
			// the same observation read as C06: a message that is not delivered while its task stays Running was skipped silently
			s.Violate("C06", "silently_skipped"+cls, "task %s is Running (store and memory) and idle at the end, no failure is shown, but messages %v of collection %d shard %d never reached target %d", owner, lost, coll, shard, tgt)
		}
	}
}

// ------------------------------------------------------------------ recovery phase (C05 / C06)

// loopFailureReason: the reason a task was paused with was written by one of the loops that all tasks of a downstream
// share (the event loop, the per-channel write loop): those loops RETURN after such a failure (KF bystander-of-failed-task).
// Failures met by a task's own goroutines (its catalog reader, its operation channel, its start) leave the loops running.
func loopFailureReason(reason string) bool {
	for _, p := range []string{"fail to read the replicate event", "fail to update start task position", "fail to handle the replicate event",
		"fail to delete collection position", "fail to handle replicate message", "fail to update task position", "fail to pack replicate message"} {
		if strings.HasPrefix(reason, p) {
			return true
		}
	}
	return false
}

// recoveryPhase: the operator resumes every task that is Paused at the end of the fault-free drain, one at a time, and the
// run is drained again. Afterwards everything of the replication domain of a resumed task that runs has to be acknowledged
// ("the failing message is not skipped: after the fault is lifted and the task resumed every row arrives").
func (r *RigS) recoveryPhase(drain func()) {
	s := r.s
	tasks, err := r.storeTasks()
	sn, ok := r.cdc.VerifTrySnapshot()
	if err != nil || !ok || len(s.Parked()) != 0 {
		return
	}
	var ids []string
	for _, id := range SortedKeys(tasks) {
		if mt, have := sn.Tasks[id]; have && tasks[id].State == meta.TaskStatePaused && mt.State == "Paused" && r.st.Tasks[id] != nil && r.st.Tasks[id].Spec != nil && r.st.Tasks[id].Spec.tgt() >= 0 {
			ids = append(ids, id)
			if mt.Reason != "" && loopFailureReason(mt.Reason) {
				if r.loopFailed == nil {
					r.loopFailed = map[int]bool{}
				}
				r.loopFailed[r.st.Tasks[id].Spec.tgt()] = true
			}
		}
	}
	if len(ids) == 0 {
		return
	}
	s.Probe("recovery_phase")
	// a stream that is registered although its task is Paused has escaped the stop (its registration was in flight when the
	// collection start failed or the task was paused: KF registration-in-flight-at-stop); it keeps delivering, its packs are
	// thrown away while the task does not run, and it goes on from where it is once the task runs again
	r.leakedAtPause = map[string]bool{}
	for _, st := range r.mq.All {
		if st.PCh == replicateChan || st.Closed {
			continue
		}
		tgt := r.targetOfStream(st)
		if tgt < 0 {
			continue
		}
		if owner := r.ownerOf(tgt, st.Coll); owner != "" && contains(ids, owner) {
			r.leakedAtPause[fmt.Sprintf("%d|%d|%d", tgt, st.Coll, st.Shard)] = true
			s.Probe("recovery_stream_of_paused_task")
		}
	}
	r.recovered = map[string]bool{}
	for _, id := range ids {
		r.sc.Ops = append(r.sc.Ops, SOp{K: "resume", Task: id})
		idx := len(r.sc.Ops) - 1
		r.st.OpPos = len(r.sc.Ops)
		s.logf("%04d recovery: resume %s", s.Step, id)
		r.startOp(idx)
		drain()
		for _, rec := range r.st.OpLog {
			if rec.Idx == idx && rec.Code == 200 {
				r.recovered[id] = true
			}
		}
	}
	drain()
	if r.opBusy {
		return
	}
	tasks, err = r.storeTasks()
	sn, ok = r.cdc.VerifTrySnapshot()
	if err != nil || !ok || len(s.Parked()) != 0 {
		s.Probe("recovery_not_quiescent")
		return
	}
	// every live collection that a resumed task selects is being read again: one open stream per shard (what property C13
	// says about a task's start, seen on the resume of a task that had stopped itself)
	if r.st.HistPos >= len(r.sc.History) {
		for _, c := range r.sc.Colls {
			if r.droppedAtSource(c.ID) {
				continue
			}
			if _, dropping := r.st.CatDropAt[fmt.Sprint(c.ID)]; dropping {
				continue
			}
			for tgt := range r.sdk {
				owner := r.ownerOf(tgt, c.ID)
				if owner == "" || !r.recovered[owner] || tasks[owner] == nil || tasks[owner].State != meta.TaskStateRunning || sn.Tasks[owner].State != "Running" {
					continue
				}
				if r.st.SDK[tgt].Colls[c.DB+"/"+c.Name] == nil {
					continue // not created downstream (yet): the create event is what starts the streams
				}
				s.Probe("recovery_streams_checked")
				for sh := 0; sh < c.Shard; sh++ {
					open := false
					for _, st := range r.mq.All {
						if st.Coll == c.ID && st.Shard == sh && st.PCh != replicateChan && !st.Closed && r.targetOfStream(st) == tgt {
							open = true
						}
					}
					if open {
						continue
					}
					cls := r.classOf(tasks, owner)
					if cls == "" && r.loopFailed[tgt] {
						cls = "_bystander_of_failed_task"
					}
					if cls == "" {
						cls = r.classOf(tasks, r.tasksOn(tgt)...)
					}
					s.Violate("C05", "recovery_collection_not_read"+cls, "task %s was resumed by the operator after the faults were lifted and runs, it selects the live collection %s (%d), but no stream of shard %d of that collection is registered for downstream %d: the collection is not replicated any more", owner, c.Name, c.ID, sh, tgt)
					s.Violate("C06", "recovery_collection_not_read"+cls, "task %s was resumed by the operator after the faults were lifted and runs (store and memory), no failure is shown, it selects the live collection %s (%d), but no stream of shard %d of that collection is registered for downstream %d", owner, c.Name, c.ID, sh, tgt)
				}
			}
		}
	}
	for _, key := range SortedKeys(r.st.Domain) {
		owner, tgt, coll, shard := parseDomainKey(key)
		if tgt < 0 || !r.recovered[owner] || tasks[owner] == nil || r.collByID[coll] == nil {
			continue
		}
		if tasks[owner].State != meta.TaskStateRunning || sn.Tasks[owner].State != "Running" {
			s.Probe("recovered_task_not_running_at_end")
			continue
		}
		if r.droppedAtSource(coll) {
			continue
		}
		set := r.ackedSet(tgt)
		log := r.mq.Logs[srcPCh(shard)]
		var lost []int64
		for i := r.st.Domain[key]; i < len(log); i++ {
			e := log[i]
			if (e.Kind == "ins" || e.Kind == "del") && e.Coll == coll && e.Shard == shard && !r.partDropped(e) {
				if _, ok := set[e.Tag]; !ok {
					lost = append(lost, e.Tag)
				}
			}
		}
		s.Probe("recovery_liveness_checked")
		if len(lost) == 0 {
			continue
		}
		cls := r.classOf(tasks, owner)
		if cls == "" && r.loopFailed[tgt] {
			cls = "_bystander_of_failed_task"
		}
		if cls == "" {
			cls = r.classOf(tasks, r.tasksOn(tgt)...)
		}
		if cls == "" && r.leakedRegistration(owner, tgt, coll, shard) {
			cls = "_registration_in_flight_at_stop"
		}
		if r.st.StaleAck[fmt.Sprintf("%d|%d|%d", tgt, coll, shard)] {
			cls = "_stale_pack_after_resume"
		}
		if r.consequenceOfTimeSkip(key, lost) {
			cls = "_after_restamped_time_skip"
		}
		if r.consequenceOfNoCheckpoint(key, lost) {
			cls = "_after_start_without_checkpoint"
		}
		if r.consequenceOfOvertaking(key, lost) {
			cls = "_forwarded_pack_overtaken"
		}
		if cls == "" && r.waitsInBatcher(tgt, coll, shard, lost) {
			cls = "_forwarded_pack_waits_in_batcher"
		}
		s.Violate("C05", "recovery_lost_message"+cls, "task %s was resumed by the operator after the faults were lifted, runs and is idle, but messages %v of collection %d shard %d never reached target %d", owner, lost, coll, shard, tgt)
		s.Violate("C06", "recovery_silently_skipped"+cls, "task %s was resumed by the operator after the faults were lifted, runs (store and memory) and is idle, no failure is shown, but messages %v of collection %d shard %d never reached target %d", owner, lost, coll, shard, tgt)
	}
}

// ------------------------------------------------------------------ C03 on the whole server

// checkAckTime judges the sequence of acknowledged packs of every downstream channel over all incarnations (C03): every
// pack ends with a tick, closing ticks never decrease, every data message lies above the closing tick of every earlier
// pack and not above its own, and in a pack with data the pack's begin / end times are those of its messages.
//
// Known finding KF-C03-resume-floor-per-collection: after a restart (or a resume that rebuilds the replication entity) the
// time floor of a downstream channel is rebuilt from the checkpoint of each collection as its stream is registered
// (seek time = checkpoint time + 1 ms); packs that were acknowledged on the channel beyond that checkpoint before the stop
// (packs of other collections further ahead, packs acknowledged but not yet recorded) lie above that floor, so the first
// packs of the resumed stream regress against them. The class is attached only when the regressing pack lies above the
// floor that the stored checkpoint of a stream registered on that channel implies, and the pack it regresses against was
// acknowledged before that registration.
func (r *RigS) checkAckTime() {
	s := r.s
	type mark struct {
		tick      uint64
		inc, step int
		n, seq    int
		cstep     int
		stale     bool
	}
	before := func(ai, as, bi, bs int) bool { return ai < bi || (ai == bi && as < bs) }
	// the step at which a pack's times were computed under the channel lock (hook note), else the step of its acknowledgement
	computedAt := func(a Ack, T uint64) int {
		cstep, exact := a.Step, false
		for _, lo := range r.st.LockOrder[a.Channel] {
			if int(lo[0]) == a.Inc && lo[1] == T && (!exact || int(lo[2]) == a.EndSeq) && int(lo[3]) <= a.Step {
				if int(lo[2]) == a.EndSeq {
					exact = true
				}
				cstep = int(lo[3]) // (the latest computation of a pack with this closing tick, preferably with this end id)
			}
		}
		return cstep
	}
	for tgt := range r.st.SDK {
		last := map[string]*mark{}
		for n, a := range r.st.SDK[tgt].Acks {
			if len(a.Msgs) == 0 {
				continue
			}
			lm := a.Msgs[len(a.Msgs)-1]
			if lm.Type != "tick" && lm.Type != "rtick" {
				s.Violate("C03", "S_pack_without_tick", "target %d channel %s: acknowledged pack #%d [%d,%d] ends with a %s message, not with a tick", tgt, a.Channel, n, a.BeginTs, a.EndTs, lm.Type)
				continue
			}
			T := lm.Ts
			s.Probe("S_ack_time_checked")
			minTs, maxData, minData := T, uint64(0), uint64(0)
			name := ""
			for _, m := range a.Msgs[:len(a.Msgs)-1] {
				if m.Type == "tick" || m.Type == "rtick" || strings.HasPrefix(m.Type, "undecodable") {
					continue
				}
				if m.Ts < minTs {
					minTs = m.Ts
				}
				if m.Ts > maxData {
					maxData = m.Ts
				}
				if minData == 0 || m.Ts < minData {
					minData = m.Ts
				}
				if name == "" {
					name = m.Name
				}
				if m.Ts > T {
					s.Violate("C03", "S_msg_after_own_tick", "target %d channel %s: %s message tag=%d carries time %d, above the closing tick %d of its own pack (#%d)", tgt, a.Channel, m.Type, m.Tag, m.Ts, T, n)
				}
			}
			if maxData != 0 && (a.BeginTs != minData || a.EndTs != maxData) {
				s.Violate("C03", "S_pack_ts_disagree", "target %d channel %s: pack #%d is announced as [%d,%d] but its messages span [%d,%d]", tgt, a.Channel, n, a.BeginTs, a.EndTs, minData, maxData)
			}
			prev := last[a.Channel]
			if prev != nil && (T < prev.tick || (maxData != 0 && minData <= prev.tick)) {
				cls := ""
				// the step at which the pack's times were computed (under the channel lock), else the step of its acknowledgement
				cstep := computedAt(a, T)
				// the floor the pinned design guarantees at that moment: the greatest floor implied by the stored checkpoints of
				// the streams registered on this channel so far (latest registration of each stream)
				latest := map[string]*SRegRec{}
				for i := range r.st.Regs {
					g := &r.st.Regs[i]
					if g.Owner == "" || g.Tgt != tgt || !contains(g.TgtPChs, a.Channel) || !before(g.Inc, g.Step, a.Inc, cstep+1) {
						continue
					}
					if g.Inc != a.Inc || (g.Closed && g.CloseStep < cstep) {
						continue // not registered any more when the pack was computed
					}
					vk := g.VCh
					if j := strings.Index(vk, "|"); j >= 0 {
						vk = vk[j+1:]
					}
					if chanShardOf(vk) != chanShardOf(a.Channel) {
						continue // the stream of another shard of the collection: it feeds another downstream channel
					}
					latest[vk] = g
				}
				floor, preStop := uint64(0), false
				for _, g := range latest {
					if g.CkptMs >= 0 && uint64(g.CkptMs+1)<<18 > floor {
						floor = uint64(g.CkptMs+1) << 18
					}
					if !before(g.Inc, g.Step, prev.inc, prev.step) {
						preStop = true // the pack regressed against was acknowledged no later than this registration
					}
					if g.Inc == prev.inc && prev.cstep < g.Step && g.Step <= prev.step {
						// ... or it was computed before this registration and acknowledged after it: it outlived the stop
						prev.stale = true
					}
				}
				if len(latest) > 0 && minTs >= floor && preStop {
					cls = "_resume_floor_below_acknowledged"
					s.Probe("S_resume_floor_below_acknowledged")
				}
				if cls == "" && prev.stale {
					// the pack it regresses against had been computed by an earlier registration of its stream and waited in the
					// queue of the shared replication entity across the stop (KF-C05-stale-pack-after-resume): it carries times
					// from before the stop, above the floor the resumed streams start from
					cls = "_stale_pack_after_resume"
					s.Probe("S_regress_against_stale_pack")
				}
				if cls == "" && a.Inc == prev.inc {
					// computed under the channel lock in the right order, enqueued in another one (KF-C03-overtake: the lock is
					// released before the pack is put into the channel's queue)
					lo := r.st.LockOrder[a.Channel]
					find := func(inc int, tick uint64, seq int, from int) int {
						for i := from; i < len(lo); i++ {
							if int(lo[i][0]) == inc && lo[i][1] == tick && int(lo[i][2]) == seq {
								return i
							}
						}
						return -1
					}
					if pi := find(a.Inc, T, a.EndSeq, 0); pi >= 0 {
						if mi := find(prev.inc, prev.tick, prev.seq, pi+1); mi > pi {
							cls = "_overtake"
							s.Probe("S_enqueue_overtaken")
						}
					}
				}
				if cls == "" && maxData != 0 {
					// a pure re-delivery: every data message of the pack had been acknowledged on this downstream before (it is
					// read again after a stop from the checkpoint, which lies behind the acknowledgements, and stamped from the
					// floor that checkpoint implies)
					again := true
					for _, m := range a.Msgs {
						if m.Type == "ins" || m.Type == "del" || m.Type == "dropp" || m.Type == "dropc" {
							seen := false
							for _, b := range r.st.SDK[tgt].Acks[:n] {
								for _, bm := range b.Msgs {
									if bm.Type == m.Type && bm.Tag == m.Tag {
										seen = true
									}
								}
							}
							again = again && seen
						}
					}
					if again {
						cls = "_resume_floor_below_acknowledged"
						s.Probe("S_redelivery_below_acknowledged")
					}
				}
				rule, what := "S_tick_regress", fmt.Sprintf("closing tick %d", T)
				if maxData != 0 && minData <= prev.tick {
					rule, what = "S_msg_not_after_tick", fmt.Sprintf("data message time %d", minData)
				}
				cands := ""
				for i := range r.st.Regs {
					if g := &r.st.Regs[i]; g.Owner != "" && g.Tgt == tgt {
						cands += fmt.Sprintf(" [%s inc=%d step=%d closed=%v/%d seek=%d/%d ckpt_ms=%d on %v]", g.VCh, g.Inc, g.Step, g.Closed, g.CloseStep, g.SeekSeq, g.SeekTs, g.CkptMs, g.TgtPChs)
					}
				}
				cands += fmt.Sprintf(" (computed at step %d, %d streams registered on the channel then, floor %d, earlier pack acknowledged before a registration: %v)", cstep, len(latest), floor, preStop)
				s.Violate("C03", rule+cls, "target %d channel %s: pack #%d (incarnation %d, step %d) carries %s, not above the closing tick %d of the earlier pack #%d (incarnation %d, step %d); stream registrations on this downstream:%s", tgt, a.Channel, n, a.Inc, a.Step, what, prev.tick, prev.n, prev.inc, prev.step, cands)
			}
			if prev == nil || T >= prev.tick {
				last[a.Channel] = &mark{tick: T, inc: a.Inc, step: a.Step, n: n, seq: a.EndSeq, cstep: computedAt(a, T), stale: a.EndSeq > a.OpenMax}
			}
		}
	}
}

// chanShardOf: the channel index at the end of a physical or virtual channel name (by-dev-rootcoord-dml_1_5004v1 -> 1,
// tgta-dml_1 -> 1), -1 if there is none.
func chanShardOf(name string) int {
	p := name
	if IsVChanName(name) {
		p = physOf(name)
	}
	n := -1
	if i := strings.LastIndex(p, "_"); i >= 0 {
		fmt.Sscanf(p[i+1:], "%d", &n)
	}
	return n
}

// IsVChanName: <pchannel>_<collection>v<shard>
func IsVChanName(name string) bool {
	i := strings.LastIndex(name, "v")
	j := strings.LastIndex(name, "_")
	if i < 0 || j < 0 || i < j || i == len(name)-1 {
		return false
	}
	for _, c := range name[i+1:] {
		if c < '0' || c > '9' {
			return false
		}
	}
	for _, c := range name[j+1 : i] {
		if c < '0' || c > '9' {
			return false
		}
	}
	return i > j+1
}

// ------------------------------------------------------------------ C04 on the whole server

// tasksOn: the model's tasks on one downstream.
func (r *RigS) tasksOn(tgt int) []string {
	var out []string
	for _, id := range SortedKeys(r.st.Tasks) {
		if t := r.st.Tasks[id]; t.Spec != nil && t.Spec.tgt() == tgt {
			out = append(out, id)
		}
	}
	return out
}

// taskSelecting: the task of the model (accepted creates) on the given downstream whose specification selects the collection.
func (r *RigS) taskSelecting(tgt int, c *SColl) string {
	owner := ""
	for _, id := range SortedKeys(r.st.Tasks) {
		t := r.st.Tasks[id]
		if t.Spec != nil && t.Spec.tgt() == tgt && specNames(t.Spec, c.DB, c.Name) {
			// a task that names the collection owns it; a wildcard task on the same downstream leaves it out
			if owner != "" && r.st.Tasks[owner].Spec.Coll != "*" && t.Spec.Coll == "*" {
				continue
			}
			owner = id
		}
	}
	return owner
}

// barrierSignalLostAtStop: some shard delivered the drop message of the partition / collection only before a stop of the task (an
// operator pause, or the end of an incarnation) was complete and never again after it: its checkpoint had passed the
// message. The barrier that counted that shard was closed by the stop (before it could issue the request: other shards
// missing, or its request waiting in front of a full event queue); the barrier set up afterwards waits for that shard in vain.
func (r *RigS) barrierSignalLostAtStop(owner string, tgt int, c *SColl, suffix string) bool {
	before := func(a, b [2]int) bool { return a[0] < b[0] || (a[0] == b[0] && a[1] < b[1]) }
	var stops [][2]int // the points at which a stop was complete
	for inc := 1; inc <= r.plan.Incarnation; inc++ {
		stops = append(stops, [2]int{inc, -1})
	}
	for _, o := range r.st.OpLog {
		if o.K == "pause" && o.Task == owner && o.Code == 200 {
			stops = append(stops, [2]int{o.Inc, o.Step})
		}
	}
	for _, t := range stops {
		for sh := 0; sh < c.Shard; sh++ {
			if last, have := r.st.DropSeenLast[fmt.Sprintf("%d|%d|%d%s", tgt, c.ID, sh, suffix)]; have && before(last, t) {
				return true
			}
		}
	}
	return false
}

// noteDropRequests looks at the downstream requests made since the last step: for every drop-collection request it
// remembers whether the drop-readiness record of that collection was still in the store right before the step in which the
// request was executed (a request repeated then is the service finishing what it could not record as done).
func (r *RigS) noteDropRequests() {
	for tgt := range r.st.SDK {
		ddl := r.st.SDK[tgt].DDL
		for i := r.st.DDLSeen[tgt]; i < len(ddl); i++ {
			d := ddl[i]
			if d.Kind != "dropc" && d.Kind != "dropp" {
				continue
			}
			for _, c := range r.sc.Colls {
				if c.Name == d.Coll && c.DB == d.DB {
					owner := r.taskSelecting(tgt, c)
					key := fmt.Sprintf("/%s/drop-collection-%d", owner, c.ID)
					if d.Kind == "dropp" {
						key = fmt.Sprintf("/%s/drop-partition-%d-%d", owner, c.ID, c.Parts[d.Part])
					}
					r.st.DropRecPrev[fmt.Sprintf("%d#%d", tgt, i)] = owner != "" && strings.Contains(r.prevRaw, key)
				}
			}
		}
		r.st.DDLSeen[tgt] = len(ddl)
	}
}

// checkDrops (C04, whole server, judged over all incarnations at the end of the run): a collection dropped at the source is
// dropped downstream by exactly one request, issued only after the drop message was delivered on every shard; a pause, a
// stop or a restart never produces a drop of its own; once the faults have stopped the drop arrives (also when the source
// dropped the collection while the service was not running).
func (r *RigS) checkDrops(tasks map[string]*meta.TaskInfo, sn server.VerifSnapshot, quiescent bool) {
	s := r.s
	before := func(a, b [2]int) bool { return a[0] < b[0] || (a[0] == b[0] && a[1] < b[1]) }
	for tgt := range r.st.SDK {
		ddl := r.st.SDK[tgt].DDL
		for _, c := range r.sc.Colls {
			var reqs []int
			created := false
			for i, d := range ddl {
				if d.DB != c.DB || d.Coll != c.Name {
					continue
				}
				if d.Kind == "createc" && !d.Err {
					created = true
				}
				if d.Kind == "dropc" {
					reqs = append(reqs, i)
				}
			}
			owner := r.taskSelecting(tgt, c)
			if len(reqs) > 0 {
				s.Probe("S_drop_checked")
				// only after every shard reached the drop message
				first := ddl[reqs[0]]
				for sh := 0; sh < c.Shard; sh++ {
					seen, have := r.st.DropSeen[fmt.Sprintf("%d|%d|%d", tgt, c.ID, sh)]
					if !have || !before(seen, [2]int{first.Inc, first.Step}) {
						what := "had not been delivered to any stream of that downstream"
						if !r.droppedAtSource(c.ID) {
							what = "does not exist: the collection is not dropped at the source"
						}
						s.Violate("C04", "S_drop_early", "downstream %d: drop request for collection %s (%d) executed in incarnation %d step %d, but the drop message of shard %d %s", tgt, c.Name, c.ID, first.Inc, first.Step, sh, what)
						break
					}
				}
				// exactly one request reaches the downstream as far as the service can tell
				prevOK := -1
				for _, i := range reqs {
					d := ddl[i]
					if d.Err || d.Fault != "" {
						continue // the service saw this request fail: it has to try again
					}
					if prevOK >= 0 && !r.st.DropRecPrev[fmt.Sprintf("%d#%d", tgt, i)] {
						p := ddl[prevOK]
						s.Violate("C04", "S_drop_twice", "downstream %d: collection %s (%d) was dropped by a request answered with success in incarnation %d step %d and again in incarnation %d step %d, although the drop-readiness record had been removed (the first drop was recorded as done)", tgt, c.Name, c.ID, p.Inc, p.Step, d.Inc, d.Step)
					}
					if prevOK >= 0 && r.st.DropRecPrev[fmt.Sprintf("%d#%d", tgt, i)] {
						s.Probe("S_drop_repeated_before_recorded")
					}
					prevOK = i
				}
			}
			// liveness, and nothing left behind
			if !r.droppedAtSource(c.ID) || owner == "" || !created {
				continue
			}
			ti := tasks[owner]
			if ti == nil || !quiescent || ti.State != meta.TaskStateRunning || sn.Tasks[owner].State != "Running" {
				continue
			}
			complete := true // the drop message is published on every shard, inside the replication domain of the task's stream
			for sh := 0; sh < c.Shard; sh++ {
				found := false
				from, streamed := r.st.Domain[domainKey(owner, tgt, c.ID, sh)]
				// (the collection must have been dropped while the task was replicating it - or was down -: the source catalog
				// began to show it as dropping after the task's stream of this shard had first been registered. What a task
				// does with a collection that was already dropped when it first read it is not judged here.)
				reg, haveReg := r.st.FirstReg[domainKey(owner, tgt, c.ID, sh)]
				catAt, haveCat := r.st.CatDropAt[fmt.Sprint(c.ID)]
				for i, e := range r.mq.Logs[srcPCh(sh)] {
					if e.Kind == "dropc" && e.Coll == c.ID && streamed && i >= from && haveReg && haveCat && before(reg, catAt) {
						found = true
					}
				}
				complete = complete && found
			}
			if !complete {
				continue
			}
			cls := r.classOf(tasks, owner)
			if cls == "" && (r.bgPaused[tgt] || r.bgTouched[tgt]) {
				cls = "_bystander_of_failed_task"
			}
			if cls == "" {
				cls = r.classOf(tasks, r.tasksOn(tgt)...) // the event loop is shared: what happened to a neighbour on this downstream
			}
			for sh := 0; sh < c.Shard; sh++ {
				if r.st.DropSkipped[fmt.Sprintf("%d|%d|%d", tgt, c.ID, sh)] {
					cls = "_after_restamped_time_skip"
				}
			}
			if _, ok := r.st.Discarded[fmt.Sprintf("%s|DropCollection|%d|0", owner, c.ID)]; ok {
				// the request had left the reader (which remembers the collection as dropped from then on) when the task was
				// paused; the event loop threw it away as a left-over of a task that is not running
				cls = "_request_discarded_at_pause"
			}
			if cls == "" && r.barrierSignalLostAtStop(owner, tgt, c, "") {
				cls = "_barrier_signal_lost_at_stop"
			}
			s.Probe("S_drop_liveness_checked")
			if r.st.SDK[tgt].Colls[c.DB+"/"+c.Name] != nil {
				s.Violate("C04", "S_drop_missing"+cls, "downstream %d: collection %s (%d) is dropped at the source (drop message published on every shard), its task %s is Running and idle, but the collection still exists downstream (%d drop request(s) so far)", tgt, c.Name, c.ID, owner, len(reqs))
				continue
			}
			if len(reqs) > 0 && ddl[reqs[len(reqs)-1]].Inc == r.plan.Incarnation && r.s.Stats["fault:taskmsg_store_err"] == 0 && strings.Contains(r.rawStore(), fmt.Sprintf("/%s/drop-collection-%d", owner, c.ID)) {
				s.Violate("C04", "S_drop_record_left"+cls, "downstream %d: the drop of collection %s (%d) was replayed in this incarnation and task %s runs, but its drop-readiness record is still in the store (the drop would be replayed at every restart)", tgt, c.Name, c.ID, owner)
			}
		}
	}
}

// checkPartitionDrops: the partition-level twin of checkDrops (non-default partitions dropped at the source while their
// collection stays alive).
func (r *RigS) checkPartitionDrops(tasks map[string]*meta.TaskInfo, sn server.VerifSnapshot, quiescent bool) {
	s := r.s
	before := func(a, b [2]int) bool { return a[0] < b[0] || (a[0] == b[0] && a[1] < b[1]) }
	for tgt := range r.st.SDK {
		ddl := r.st.SDK[tgt].DDL
		for _, c := range r.sc.Colls {
			for _, pname := range SortedKeys(c.Parts) {
				pid := c.Parts[pname]
				var reqs []int
				created := false
				for i, d := range ddl {
					if d.DB != c.DB || d.Coll != c.Name || d.Part != pname {
						continue
					}
					if d.Kind == "createp" && !d.Err {
						created = true
					}
					if d.Kind == "dropp" {
						reqs = append(reqs, i)
					}
				}
				owner := r.taskSelecting(tgt, c)
				published := true // the drop message of the partition is published on every shard, inside the task's domain
				for sh := 0; sh < c.Shard; sh++ {
					found := false
					from, streamed := r.st.Domain[domainKey(owner, tgt, c.ID, sh)]
					// (the partition must have been dropped while the task was replicating the collection - or was down -, not
					// before the task first read the collection: what a task that starts from the collection's start position does
					// with a partition that was created and dropped before it existed is not judged here)
					pub, havePub := r.st.PubAt[fmt.Sprintf("p%d", pid)]
					reg, haveReg := r.st.FirstReg[domainKey(owner, tgt, c.ID, sh)]
					for i, e := range r.mq.Logs[srcPCh(sh)] {
						if e.Kind == "dropp" && e.Coll == c.ID && e.Part == pid && streamed && i >= from && havePub && haveReg && before(reg, pub) {
							found = true
						}
					}
					published = published && found
				}
				if len(reqs) > 0 {
					s.Probe("S_partition_drop_checked")
					first := ddl[reqs[0]]
					for sh := 0; sh < c.Shard; sh++ {
						seen, have := r.st.DropSeen[fmt.Sprintf("%d|%d|%d|p%d", tgt, c.ID, sh, pid)]
						if catAt, ok := r.st.CatDropAt[fmt.Sprintf("p%d", pid)]; ok && before(catAt, [2]int{first.Inc, first.Step}) {
							// the source catalog showed the partition as dropping before the request: a partition that is announced in
							// that state (at the start, or by the watch) makes every handler generate the drop message of its shard itself
							s.Probe("S_partition_drop_generated_from_catalog")
							continue
						}
						if !have || !before(seen, [2]int{first.Inc, first.Step}) {
							cls := ""
							if r.st.PartialBar[fmt.Sprintf("%d|%d", tgt, pid)] {
								cls = "_partial_barrier"
							}
							s.Violate("C04", "S_pdrop_early"+cls, "downstream %d: drop request for partition %s (%d) of collection %s executed in incarnation %d step %d, but the drop message of shard %d had not been delivered to a stream of that downstream", tgt, pname, pid, c.Name, first.Inc, first.Step, sh)
							break
						}
					}
					prevOK := -1
					for _, i := range reqs {
						d := ddl[i]
						if d.Err || d.Fault != "" {
							continue
						}
						if prevOK >= 0 && !r.st.DropRecPrev[fmt.Sprintf("%d#%d", tgt, i)] {
							p0 := ddl[prevOK]
							s.Violate("C04", "S_pdrop_twice", "downstream %d: partition %s of collection %s was dropped by a request answered with success in incarnation %d step %d and again in incarnation %d step %d, although the drop-readiness record had been removed", tgt, pname, c.Name, p0.Inc, p0.Step, d.Inc, d.Step)
						}
						prevOK = i
					}
				}
				if !published || owner == "" || !created || r.droppedAtSource(c.ID) {
					continue
				}
				ti := tasks[owner]
				if ti == nil || !quiescent || ti.State != meta.TaskStateRunning || sn.Tasks[owner].State != "Running" {
					continue
				}
				cls := r.classOf(tasks, owner)
				if cls == "" && (r.bgPaused[tgt] || r.bgTouched[tgt]) {
					cls = "_bystander_of_failed_task"
				}
				if cls == "" {
					cls = r.classOf(tasks, r.tasksOn(tgt)...)
				}
				for sh := 0; sh < c.Shard; sh++ {
					if r.st.DropSkipped[fmt.Sprintf("%d|%d|%d|p%d", tgt, c.ID, sh, pid)] {
						cls = "_after_restamped_time_skip"
					}
				}
				if _, ok := r.st.Discarded[fmt.Sprintf("%s|DropPartition|%d|%d", owner, c.ID, pid)]; ok {
					cls = "_request_discarded_at_pause"
				}
				if cls == "" && r.barrierSignalLostAtStop(owner, tgt, c, fmt.Sprintf("|p%d", pid)) {
					cls = "_barrier_signal_lost_at_stop"
				}
				s.Probe("S_partition_drop_liveness_checked")
				if dc := r.st.SDK[tgt].Colls[c.DB+"/"+c.Name]; dc != nil && dc.Parts[pname] != nil {
					s.Violate("C04", "S_pdrop_missing"+cls, "downstream %d: partition %s of collection %s is dropped at the source (drop message published on every shard), task %s is Running and idle, but the partition still exists downstream (%d drop request(s) so far)", tgt, pname, c.Name, owner, len(reqs))
				}
			}
		}
	}
}
