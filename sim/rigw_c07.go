package sim

import (
	"context"
	"encoding/base64"
	"encoding/json"
	"errors"
	"fmt"
	"os"
	"sort"
	"strings"
	"sync"
	"testing"
	"testing/synctest"
	"time"

	"github.com/milvus-io/milvus-proto/go-api/v2/commonpb"
	"github.com/milvus-io/milvus-proto/go-api/v2/msgpb"
	"github.com/milvus-io/milvus/pkg/mq/msgstream"
	"go.uber.org/zap/zapcore"
	"google.golang.org/protobuf/proto"

	"github.com/zilliztech/milvus-cdc/core/api"
	"github.com/zilliztech/milvus-cdc/core/config"
	cdclog "github.com/zilliztech/milvus-cdc/core/log"
	"github.com/zilliztech/milvus-cdc/core/util"
	"github.com/zilliztech/milvus-cdc/core/writer"
)

// ------------------------------------------------------------------ rig W, part 1: replicate message bytes (C07)

type W7Msg struct {
	Kind string  `json:"k"` // ins del dropp dropc tick
	DB   string  `json:"db,omitempty"`
	Coll string  `json:"c,omitempty"`
	Part string  `json:"p,omitempty"`
	Rows []int64 `json:"rows,omitempty"`
	Ts   uint64  `json:"ts"`
	Tag  int64   `json:"tag"`
	// PreRI: replication info the message already carries when the writer gets it (chained replication):
	// 0 none, 1 an empty info, 2 the mark and id of another replication
	PreRI int `json:"pre_ri,omitempty"`
	// SrcTs, when set: the message was re-stamped by the reader (the channel clock was ahead of the pack). The time the
	// message carries (Ts: begin/end time, row times, position time) is the re-stamped one; the request header still holds
	// the time the message had at the source - which is what the reader's re-stamping leaves there.
	SrcTs uint64 `json:"src_ts,omitempty"`
}

type W7Pack struct {
	Begin uint64  `json:"b"`
	End   uint64  `json:"e"`
	Seq   int     `json:"seq"`
	Msgs  []W7Msg `json:"msgs"`
	// ExtraEnd: further end positions listed BEFORE the pack's last one (message id 100000+i, time = End + Dt; Dt may be
	// negative, zero or positive, and Zero drops the timestamps altogether): the checkpoint is the LAST position's id
	ExtraEnd []int `json:"extra_end,omitempty"`
	ZeroTs   bool  `json:"zero_ts,omitempty"`
}

// w7Positions builds the start / end positions of a generated pack (the last end position is the pack's own).
func w7Positions(ch string, pk W7Pack) (starts, ends []*msgpb.MsgPosition) {
	starts = []*msgpb.MsgPosition{{ChannelName: ch, MsgID: SeqToMsgID(pk.Seq - len(pk.Msgs)), Timestamp: pk.Begin}}
	for i, dt := range pk.ExtraEnd {
		ts := uint64(int64(pk.End) + int64(dt))
		if pk.ZeroTs {
			ts = 0
		}
		ends = append(ends, &msgpb.MsgPosition{ChannelName: ch, MsgID: SeqToMsgID(100000 + i), Timestamp: ts})
	}
	endTs := pk.End
	if pk.ZeroTs && len(pk.ExtraEnd) > 0 {
		endTs = 0
	}
	ends = append(ends, &msgpb.MsgPosition{ChannelName: ch, MsgID: SeqToMsgID(pk.Seq), Timestamp: endTs})
	return
}

type W7Script struct {
	ReplicateID string              `json:"replicate_id"`
	Mapping     map[string]string   `json:"mapping"`
	Channels    map[string][]W7Pack `json:"channels"`
	Buf         int                 `json:"buf"`
	Faults      int                 `json:"faults"`
	RangeMode   int                 `json:"range_mode"`
}

func GenW7(rng *Rng) *W7Script {
	sc := &W7Script{Channels: map[string][]W7Pack{}, Mapping: map[string]string{}, Buf: Pick(rng, []int{1, 4, 16}), RangeMode: rng.Intn(3)}
	if rng.Pct(50) {
		sc.ReplicateID = "rid-" + fmt.Sprint(rng.Intn(9))
	}
	switch rng.Intn(5) {
	case 1:
		sc.Mapping["default.c1"] = "default.c1x"
	case 2:
		sc.Mapping["dbx.*"] = "dby.*"
	case 3:
		sc.Mapping["dbx.c1"] = "dbz.k1"
		sc.Mapping["default.*"] = "dflt2.*"
	case 4:
		sc.Mapping["other.cc"] = "o2.cc"
	}
	nCh := rng.Range(1, 3)
	tag := int64(0)
	row := int64(5000)
	for c := 0; c < nCh; c++ {
		ch := fmt.Sprintf("tgt-dml_%d", c)
		ts := uint64(1000 * (c + 1))
		seq := 0
		for p := 0; p < rng.Range(1, 5); p++ {
			pk := W7Pack{Begin: ts}
			if p == 0 && rng.Pct(50) {
				pk.Msgs = append(pk.Msgs, W7Msg{Kind: "tick", Ts: ts})
			}
			for m := 0; m < rng.Range(0, 3); m++ {
				ts += uint64(rng.Range(0, 3))
				tag++
				k := Pick(rng, []string{"ins", "ins", "del", "dropp", "dropc"})
				msg := W7Msg{Kind: k, DB: Pick(rng, []string{"default", "", "dbx"}), Coll: Pick(rng, []string{"c1", "c2"}), Part: Pick(rng, []string{"_default", "p1"}), Ts: ts, Tag: tag}
				if rng.Pct(15) {
					msg.PreRI = rng.Range(1, 2)
				}
				if rng.Pct(25) {
					msg.SrcTs = ts - uint64(rng.Range(1, 900))
				}
				if k == "ins" || k == "del" {
					for i := 0; i < rng.Range(1, 3); i++ {
						row++
						msg.Rows = append(msg.Rows, row)
					}
				}
				pk.Msgs = append(pk.Msgs, msg)
			}
			ts += uint64(rng.Range(0, 2))
			pk.Msgs = append(pk.Msgs, W7Msg{Kind: "tick", Ts: ts})
			pk.End = ts
			seq += len(pk.Msgs)
			pk.Seq = seq
			if rng.Pct(25) {
				// several end positions; the last one need not carry the greatest time
				for i := 0; i < rng.Range(1, 2); i++ {
					pk.ExtraEnd = append(pk.ExtraEnd, rng.Range(-3, 3))
				}
				pk.ZeroTs = rng.Pct(20)
			}
			sc.Channels[ch] = append(sc.Channels[ch], pk)
			ts += uint64(rng.Range(1, 5))
		}
	}
	if rng.Pct(40) {
		sc.Faults = rng.Range(1, 2)
	}
	return sc
}

func buildW7Msg(m W7Msg, ch string) msgstream.TsMsg {
	base := msgstream.BaseMsg{BeginTimestamp: m.Ts, EndTimestamp: m.Ts, HashValues: []uint32{0}, MsgPosition: &msgpb.MsgPosition{ChannelName: ch, MsgID: SeqToMsgID(int(m.Tag)), Timestamp: m.Ts}}
	mb := func(t commonpb.MsgType) *commonpb.MsgBase {
		b := &commonpb.MsgBase{MsgType: t, MsgID: m.Tag, Timestamp: m.Ts, SourceID: 1}
		if m.SrcTs != 0 {
			b.Timestamp = m.SrcTs
		}
		switch m.PreRI {
		case 1:
			b.ReplicateInfo = &commonpb.ReplicateInfo{}
		case 2:
			b.ReplicateInfo = &commonpb.ReplicateInfo{IsReplicate: true, ReplicateID: "another-replication", MsgTimestamp: 1}
		}
		return b
	}
	switch m.Kind {
	case "ins":
		return &msgstream.InsertMsg{BaseMsg: base, InsertRequest: &msgpb.InsertRequest{Base: mb(commonpb.MsgType_Insert), ShardName: ch + "_900v0", DbName: m.DB, CollectionName: m.Coll, PartitionName: m.Part,
			CollectionID: 900, PartitionID: 901, SegmentID: 7, Timestamps: tsSlice(len(m.Rows), m.Ts), RowIDs: append([]int64(nil), m.Rows...), FieldsData: FieldsFor(m.Rows), NumRows: uint64(len(m.Rows)), Version: msgpb.InsertDataVersion_ColumnBased}}
	case "del":
		return &msgstream.DeleteMsg{BaseMsg: base, DeleteRequest: &msgpb.DeleteRequest{Base: mb(commonpb.MsgType_Delete), ShardName: ch + "_900v0", DbName: m.DB, CollectionName: m.Coll, PartitionName: m.Part,
			CollectionID: 900, PartitionID: 901, Timestamps: tsSlice(len(m.Rows), m.Ts), NumRows: int64(len(m.Rows)), PrimaryKeys: PKsFor(m.Rows)}}
	case "dropp":
		return &msgstream.DropPartitionMsg{BaseMsg: base, DropPartitionRequest: &msgpb.DropPartitionRequest{Base: mb(commonpb.MsgType_DropPartition), DbName: m.DB, CollectionName: m.Coll, PartitionName: m.Part, CollectionID: 900, PartitionID: 901}}
	case "dropc":
		return &msgstream.DropCollectionMsg{BaseMsg: base, DropCollectionRequest: &msgpb.DropCollectionRequest{Base: mb(commonpb.MsgType_DropCollection), DbName: m.DB, CollectionName: m.Coll, CollectionID: 900}}
	}
	return &msgstream.TimeTickMsg{BaseMsg: base, TimeTickMsg: &msgpb.TimeTickMsg{Base: &commonpb.MsgBase{MsgType: commonpb.MsgType_TimeTick, Timestamp: m.Ts, SourceID: -1}}}
}

// refMap is the reference name mapping: exact entry, else whole-database entry, else identity.
func refMap(mapping map[string]string, db, coll string) (string, string) {
	if db == "" {
		db = "default"
	}
	if t, ok := mapping[db+"."+coll]; ok {
		p := strings.SplitN(t, ".", 2)
		return p[0], p[1]
	}
	if t, ok := mapping[db+".*"]; ok {
		p := strings.SplitN(t, ".", 2)
		return p[0], coll
	}
	return db, coll
}

func installRangeOrder(mode int) {
	util.VerifRangeOrder = func(keys []string) []int {
		idx := make([]int, len(keys))
		for i := range idx {
			idx[i] = i
		}
		switch mode {
		case 1:
			sort.Sort(sort.Reverse(sort.IntSlice(idx)))
		case 2:
			if len(idx) > 1 {
				idx = append(idx[1:], idx[0])
			}
		}
		return idx
	}
}

type w7Handler struct {
	api.DefaultDataHandler
	s       *Sim
	sc      *W7Script
	mu      sync.Mutex
	calls   map[string]int
	retPos  map[string]string // channel#n -> base64 position returned
	expect  map[string][]W7Pack
	applied map[string]int
}

func (h *w7Handler) ReplicateMessage(ctx context.Context, param *api.ReplicateMessageParam) error {
	h.mu.Lock()
	n := h.calls[param.ChannelName]
	h.calls[param.ChannelName]++
	h.mu.Unlock()
	o := h.s.Park(ctx, "dw", fmt.Sprintf("%s#%02d", param.ChannelName, n), nil)
	if o.CtxErr != nil {
		return o.CtxErr
	}
	h.check(param, n)
	if o.Fault != "" {
		return errW7
	}
	pos := &msgpb.MsgPosition{ChannelName: param.ChannelName, MsgID: []byte(fmt.Sprintf("tgt-%s-%d", param.ChannelName, n)), Timestamp: param.EndTs}
	b, _ := proto.Marshal(pos)
	enc := base64.StdEncoding.EncodeToString(b)
	h.mu.Lock()
	h.retPos[fmt.Sprintf("%s#%d", param.ChannelName, n)] = string(b)
	h.mu.Unlock()
	param.TargetMsgPosition = enc
	return nil
}

var errW7 = errors.New("sim: downstream rejected the replicate message")

var w7Dispatcher = (&msgstream.ProtoUDFactory{}).NewUnmarshalDispatcher()

// check decodes the bytes of one downstream call and compares them with the pack the writer was given.
func (h *w7Handler) check(param *api.ReplicateMessageParam, n int) {
	s, sc := h.s, h.sc
	packs := h.expect[param.ChannelName]
	// the writer is called sequentially per channel: the n-th downstream call of a channel is its n-th pack
	// (a failed call is not retried by the writer)
	if n >= len(packs) {
		s.Violate("C07", "extra_call", "channel %s: downstream call #%d but only %d packs were handed to the writer", param.ChannelName, n, len(packs))
		return
	}
	pk := packs[n]
	if param.ChannelName == "" || param.BeginTs != pk.Begin || param.EndTs != pk.End {
		s.Violate("C07", "envelope", "channel %s call #%d: begin/end %d/%d, pack has %d/%d", param.ChannelName, n, param.BeginTs, param.EndTs, pk.Begin, pk.End)
	}
	if param.Base == nil || param.Base.ReplicateInfo == nil || !param.Base.ReplicateInfo.IsReplicate {
		s.Violate("C07", "not_flagged", "channel %s call #%d is not flagged as a replication call", param.ChannelName, n)
	}
	wantStarts, wantEnds := w7Positions(param.ChannelName, pk)
	samePos := func(a, b []*msgpb.MsgPosition) bool {
		if len(a) != len(b) {
			return false
		}
		for i := range a {
			if a[i].ChannelName != b[i].ChannelName || string(a[i].MsgID) != string(b[i].MsgID) || a[i].Timestamp != b[i].Timestamp {
				return false
			}
		}
		return true
	}
	if !samePos(param.StartPositions, wantStarts) || !samePos(param.EndPositions, wantEnds) {
		s.Violate("C07", "envelope", "channel %s call #%d: positions differ from the pack's", param.ChannelName, n)
	}
	if len(pk.ExtraEnd) > 0 {
		s.Probe("several_end_positions")
	}
	if len(param.MsgsBytes) != len(pk.Msgs) {
		s.Violate("C07", "count", "channel %s call #%d carries %d serialized messages, pack has %d", param.ChannelName, n, len(param.MsgsBytes), len(pk.Msgs))
		return
	}
	for i, raw := range param.MsgsBytes {
		want := pk.Msgs[i]
		hdr := &commonpb.MsgHeader{}
		if err := proto.Unmarshal(raw, hdr); err != nil || hdr.Base == nil {
			s.Violate("C07", "decode", "channel %s call #%d msg %d: header does not decode: %v", param.ChannelName, n, i, err)
			continue
		}
		msg, err := w7Dispatcher.Unmarshal(raw, hdr.Base.MsgType)
		if err != nil {
			s.Violate("C07", "decode", "channel %s call #%d msg %d (%s): %v", param.ChannelName, n, i, hdr.Base.MsgType, err)
			continue
		}
		wantMsg := buildW7Msg(want, param.ChannelName)
		wdb, wcoll := refMap(sc.Mapping, want.DB, want.Coll)
		ri := hdr.Base.ReplicateInfo
		if sc.ReplicateID != "" {
			if ri == nil || !ri.IsReplicate || ri.ReplicateID != sc.ReplicateID {
				s.Violate("C07", "replicate_id", "channel %s call #%d msg %d (%s) does not carry replicate id %q: %v", param.ChannelName, n, i, hdr.Base.MsgType, sc.ReplicateID, ri)
			}
		}
		if want.Kind == "tick" {
			if sc.ReplicateID != "" {
				rm, ok := msg.(*msgstream.ReplicateMsg)
				if !ok {
					s.Violate("C07", "tick_conversion", "channel %s call #%d msg %d: tick was not converted to a replicate message (%s)", param.ChannelName, n, i, msg.Type())
					continue
				}
				if rm.BeginTs() != want.Ts || rm.EndTs() != want.Ts || rm.GetIsEnd() {
					s.Violate("C07", "timestamps", "channel %s call #%d msg %d: replicate-tick decodes to ts %d/%d (end=%v), the tick handed over has %d", param.ChannelName, n, i, rm.BeginTs(), rm.EndTs(), rm.GetIsEnd(), want.Ts)
				}
				s.Probe("tick_converted")
			} else {
				tt, ok := msg.(*msgstream.TimeTickMsg)
				if !ok || tt.Base.Timestamp != want.Ts {
					s.Violate("C07", "timestamps", "channel %s call #%d msg %d: tick decodes to %v, expected ts %d", param.ChannelName, n, i, msg.Type(), want.Ts)
				}
			}
			continue
		}
		if msg.Type() != wantMsg.Type() {
			s.Violate("C07", "type_order", "channel %s call #%d msg %d decodes to %s, pack has %s", param.ChannelName, n, i, msg.Type(), wantMsg.Type())
			continue
		}
		if msg.BeginTs() != want.Ts || msg.EndTs() != want.Ts {
			s.Violate("C07", "timestamps", "channel %s call #%d msg %d (%s) decodes to ts %d/%d, pack has %d", param.ChannelName, n, i, msg.Type(), msg.BeginTs(), msg.EndTs(), want.Ts)
		}
		// compare the request after applying the reference mapping and the replication marking to the expectation
		var got, exp proto.Message
		switch x := msg.(type) {
		case *msgstream.InsertMsg:
			e := wantMsg.(*msgstream.InsertMsg).InsertRequest
			e.DbName, e.CollectionName = wdb, wcoll
			got, exp = x.InsertRequest, e
		case *msgstream.DeleteMsg:
			e := wantMsg.(*msgstream.DeleteMsg).DeleteRequest
			e.DbName, e.CollectionName = wdb, wcoll
			got, exp = x.DeleteRequest, e
		case *msgstream.DropPartitionMsg:
			e := wantMsg.(*msgstream.DropPartitionMsg).DropPartitionRequest
			e.DbName, e.CollectionName = wdb, wcoll
			got, exp = x.DropPartitionRequest, e
		case *msgstream.DropCollectionMsg:
			e := wantMsg.(*msgstream.DropCollectionMsg).DropCollectionRequest
			e.DbName, e.CollectionName = wdb, wcoll
			got, exp = x.DropCollectionRequest, e
		}
		if wdb != want.DB && !(want.DB == "" && wdb == "default") || wcoll != want.Coll {
			s.Probe("name_mapped")
		}
		if got != nil {
			g := proto.Clone(got)
			e := proto.Clone(exp)
			clearReplicateInfo(g)
			clearReplicateInfo(e)
			if want.SrcTs != 0 {
				s.Probe("restamped_message")
				if t := msg.Type(); t == commonpb.MsgType_DropCollection || t == commonpb.MsgType_DropPartition {
					// the time of a drop message travels in the request header only: it is judged by the decoded begin/end
					// time above, not a second time here
					s.Probe("restamped_drop_message")
					clearHeaderTime(g)
					clearHeaderTime(e)
				}
			}
			if !proto.Equal(g, e) {
				s.Violate("C07", "content", "channel %s call #%d msg %d (%s): decoded request differs from the pack's message: got %v want %v", param.ChannelName, n, i, msg.Type(), g, e)
			}
		}
	}
}

func clearHeaderTime(m proto.Message) {
	type hasBase interface{ GetBase() *commonpb.MsgBase }
	if b, ok := m.(hasBase); ok && b.GetBase() != nil {
		b.GetBase().Timestamp = 0
	}
}

func clearReplicateInfo(m proto.Message) {
	type hasBase interface{ GetBase() *commonpb.MsgBase }
	if b, ok := m.(hasBase); ok && b.GetBase() != nil {
		b.GetBase().ReplicateInfo = nil
	}
}

func RunRigW7(t *testing.T, plan *Plan) {
	cdclog.SetLevel(zapcore.FatalLevel)
	var sc *W7Script
	if len(plan.Script) > 0 {
		sc = &W7Script{}
		if err := json.Unmarshal(plan.Script, sc); err != nil {
			HarnessFail(plan, "bad script: %v", err)
		}
	} else {
		sc = GenW7(NewRng(plan.Seed))
		b, _ := json.Marshal(sc)
		plan.Script = b
	}
	synctest.Test(t, func(t *testing.T) {
		s := NewSim(t, plan)
		s.Start = time.Now()
		StartWatchdogOutside(s)
		s.FaultBudget["dw_err"] = sc.Faults
		installRangeOrder(sc.RangeMode)
		h := &w7Handler{s: s, sc: sc, calls: map[string]int{}, retPos: map[string]string{}, expect: sc.Channels}
		w := writer.NewChannelWriter(h, nil, config.WriterConfig{MessageBufferSize: sc.Buf, ReplicateID: sc.ReplicateID, Retry: config.RetrySettings{RetryTimes: 2, InitBackOff: 1, MaxBackOff: 1}}, map[string]map[string]uint64{}, "milvus")
		if len(sc.Mapping) > 0 {
			w.(interface{ UpdateNameMappings(map[string]string) }).UpdateNameMappings(sc.Mapping)
		}
		var mu sync.Mutex
		done := 0
		for _, ch := range SortedKeys(sc.Channels) {
			ch := ch
			go func() {
				for i, pk := range sc.Channels[ch] {
					s.Park(nil, "h", fmt.Sprintf("hrm:%s:%02d", ch, i), nil)
					starts, ends := w7Positions(ch, pk)
					pack := &msgstream.MsgPack{BeginTs: pk.Begin, EndTs: pk.End, StartPositions: starts, EndPositions: ends}
					for _, m := range pk.Msgs {
						pack.Msgs = append(pack.Msgs, buildW7Msg(m, ch))
					}
					faultsBefore := s.statOf("fault:dw_err:" + ch)
					ckpt, tpos, err := w.HandleReplicateMessage(context.Background(), ch, pack)
					failed := s.statOf("fault:dw_err:"+ch) > faultsBefore
					switch {
					case failed && err == nil:
						s.Violate("C07", "error_swallowed", "channel %s pack %d: the downstream call failed but HandleReplicateMessage returned no error", ch, i)
					case failed && (ckpt != nil || tpos != nil):
						s.Violate("C07", "error_swallowed", "channel %s pack %d: failed call returned a checkpoint/position", ch, i)
					case !failed && err != nil:
						s.Violate("C07", "unexpected_error", "channel %s pack %d: %v", ch, i, err)
					case !failed:
						if MsgIDToSeq(ckpt) != pk.Seq {
							s.Violate("C07", "checkpoint", "channel %s pack %d: returned source checkpoint %x, the pack's last end position has message id %d", ch, i, ckpt, pk.Seq)
						}
						h.mu.Lock()
						want := h.retPos[fmt.Sprintf("%s#%d", ch, i)]
						h.mu.Unlock()
						if string(tpos) != want {
							s.Violate("C07", "target_position", "channel %s pack %d: returned target position is not the one the downstream returned for that call (cross-talk between channels?)", ch, i)
						}
					}
				}
				mu.Lock()
				done++
				mu.Unlock()
			}()
		}
		s.OnRelease = func(c *Call, o Outcome) {
			if c.Kind == "dw" && o.Fault != "" {
				ch := strings.SplitN(c.Key, "#", 2)[0]
				s.mu.Lock()
				s.Stats["fault:dw_err:"+ch]++
				s.mu.Unlock()
			}
		}
		for s.Step < 400 {
			s.Settle()
			acts := s.ReleaseActions(func(c *Call) []string {
				if c.Kind == "dw" {
					return []string{"dw_err"}
				}
				return nil
			})
			if len(acts) == 0 {
				break
			}
			inflight := 0
			for _, c := range s.Parked() {
				if c.Kind == "dw" {
					inflight++
				}
			}
			if inflight >= 2 {
				s.Probe("concurrent_channels")
			}
			s.StepOnce(acts)
		}
		s.Settle()
		mu.Lock()
		if done != len(sc.Channels) {
			s.Violate("C07", "stuck", "only %d of %d channel drivers finished", done, len(sc.Channels))
		}
		mu.Unlock()
		res := s.Result("ok")
		res.Real = []string{"writer.ChannelWriter.HandleReplicateMessage", "writer.replicateMessageManager / replicateMessageHandler", "msgstream marshal + ProtoUDFactory unmarshal dispatcher (Milvus' own decoder)"}
		res.Stub = []string{"api.DataHandler.ReplicateMessage (recording, parked)"}
		res.Sample = sc
		WriteResult(res)
		if res.Status == "violation" {
			os.Exit(1)
		}
		os.Exit(0)
	})
}

func (s *Sim) statOf(k string) int {
	s.mu.Lock()
	defer s.mu.Unlock()
	return s.Stats[k]
}
