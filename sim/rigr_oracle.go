package sim

import (
	"fmt"
	"sort"
	"strings"

	"github.com/milvus-io/milvus/pkg/mq/msgstream"
	"google.golang.org/protobuf/proto"

	"github.com/zilliztech/milvus-cdc/core/api"
)

type srcRef struct {
	e   *REntry
	vch string
	dp  *DeliveredPack
	reg *SimStream
}

func (r *RigR) vchanFor(collID int64, srcPCh string) (string, *RColl) {
	c := r.sc.coll(collID)
	if c == nil {
		return "", nil
	}
	for _, v := range c.SrcV {
		if physOf(v) == srcPCh {
			return v, c
		}
	}
	return "", c
}

func isData(k string) bool {
	return k == "ins" || k == "del" || k == "dropp" || k == "dropc" || k == "imp"
}

func (r *RigR) oracles() {
	s := r.sim
	sc := r.sc
	// ---- index of what was delivered to handlers
	delivered := map[string]map[int64]*srcRef{} // vch -> tag -> ref
	tickSeqs := map[string]map[int]uint64{}     // pch -> tick seq -> ts
	for pch, log := range sc.Log {
		tickSeqs[pch] = map[int]uint64{}
		for _, e := range log {
			if e.Kind == "tick" {
				tickSeqs[pch][e.Seq] = e.Ts
			}
		}
	}
	for _, st := range r.mq.All {
		if delivered[st.VCh] == nil {
			delivered[st.VCh] = map[int64]*srcRef{}
		}
		for _, dp := range st.Delivered {
			for _, e := range dp.Entries {
				if isData(e.Kind) {
					delivered[st.VCh][e.Tag] = &srcRef{e: e, vch: st.VCh, dp: dp, reg: st}
				}
			}
		}
	}
	stopped := map[int64]bool{}
	for _, o := range r.ops {
		if o.op.Kind == "stop" && o.issued {
			stopped[o.op.Coll] = true
		}
	}
	errEvent := false
	for _, e := range r.Events {
		if e.Type == api.ReplicateError || e.Err != "" {
			errEvent = true
		}
	}

	// ---- walk the emitted packs
	emitted := map[string]map[int64]int{} // vch -> tag -> count
	type emRef struct {
		p *EmPack
		m *EmMsg
	}
	perVch := map[string][]emRef{}
	lastEndSeq := map[string]int{}  // queue|vch -> last end seq
	lastFwd := map[string]bool{}    // queue|vch -> whether that pack had taken the forward path
	shardMap := map[string]string{} // source vch -> downstream ShardName
	shardInv := map[string]string{}
	dataPacksOnQueue := map[string]map[int64]bool{}
	for _, p := range r.Packs {
		vch, c := r.vchanFor(p.CollID, p.SrcPCh)
		nData := 0
		for _, m := range p.Msgs {
			if m.Type != "tick" {
				nData++
			}
		}
		if c == nil || vch == "" {
			s.Violate("C01", "label", "pack on %s labelled collection=%d source=%s names no source stream", p.Queue, p.CollID, p.SrcPCh)
			continue
		}
		if p.CollName != c.Name || p.Task != c.Task {
			s.Violate("C01", "label", "pack of stream %s labelled name=%q task=%q, expected %q/%q", vch, p.CollName, p.Task, c.Name, c.Task)
		}
		if dataPacksOnQueue[p.Queue] == nil {
			dataPacksOnQueue[p.Queue] = map[int64]bool{}
		}
		if nData > 0 {
			dataPacksOnQueue[p.Queue][p.CollID] = true
		}
		// pack order per stream per queue, by preserved source end message id
		endSeq := -1
		if len(p.EndPos) > 0 {
			endSeq = MsgIDToSeq(p.EndPos[0].MsgID)
		}
		synthetic := c.State == "dropped" && nData > 0 && p.Msgs[firstData(p)].Tag == 0
		if !synthetic {
			if _, ok := tickSeqs[p.SrcPCh][endSeq]; !ok {
				s.Violate("C02", "pack_msgid", "pack of stream %s on %s: end position message id %d is not a source tick of %s", vch, p.Queue, endSeq, p.SrcPCh)
			}
			k := p.Queue + "|" + vch
			fwd := r.fwdPacks[fmt.Sprintf("%d|%s|%d", p.CollID, p.SrcPCh, endSeq)]
			if last, ok := lastEndSeq[k]; ok && endSeq <= last {
				cls := ""
				if fwd != lastFwd[k] {
					// one of the two packs took the forward path (another goroutine hands it over) and the other did not:
					// the known forward-path finding (KF-C05-forwarded-pack-overtaken), here with both on one queue
					cls = "_forwarded_pack_overtaken"
				}
				s.Violate("C01", "pack_order"+cls, "stream %s on %s: pack with source end id %d handed over after %d", vch, p.Queue, endSeq, last)
			}
			if last, ok := lastEndSeq[k]; !ok || endSeq > last {
				lastEndSeq[k] = endSeq
				lastFwd[k] = fwd
			}
		}
		for _, pos := range append(append([]*posT{}, toPosT(p.StartPos)...), toPosT(p.EndPos)...) {
			if pos.ch != p.Queue {
				s.Violate("C02", "pack_pos_channel", "pack on %s carries a position naming %s", p.Queue, pos.ch)
			}
		}
		for _, m := range p.Msgs {
			if m.Type == "tick" {
				continue
			}
			if m.Tag == 0 && (m.Type == "dropc" || m.Type == "dropp") && (c.State == "dropped" || partDroppedAtStart(c, m.PartName)) {
				s.Probe("synthetic_drop_emitted")
				continue // synthetic drop for an object dropped while CDC was not looking (C04)
			}
			ref := delivered[vch][m.Tag]
			if ref == nil {
				s.Violate("C01", "phantom", "message type=%s tag=%d emitted on %s for stream %s was never read from that stream", m.Type, m.Tag, p.Queue, vch)
				continue
			}
			if emitted[vch] == nil {
				emitted[vch] = map[int64]int{}
			}
			emitted[vch][m.Tag]++
			if emitted[vch][m.Tag] > 1 {
				s.Violate("C01", "duplicate", "message type=%s tag=%d of stream %s emitted %d times", m.Type, m.Tag, vch, emitted[vch][m.Tag])
			}
			if ref.e.Kind != m.Type {
				s.Violate("C01", "payload", "tag=%d: type %s emitted for source %s", m.Tag, m.Type, ref.e.Kind)
				continue
			}
			if ref.dp.EndSeq != endSeq {
				s.Violate("C01", "pack_membership", "tag=%d of stream %s was read in the pack ending at id %d but emitted in the pack ending at id %d", m.Tag, vch, ref.dp.EndSeq, endSeq)
			}
			perVch[vch] = append(perVch[vch], emRef{p, m})
			r.checkPayload(c, ref.e, m)
			r.checkAddress(c, vch, ref.e, p, m, shardMap, shardInv)
		}
	}

	// ---- C01 order per source vchannel (emission order on its queue)
	for vch, seq := range perVch {
		var prev *REntry
		for _, er := range seq {
			e := delivered[vch][er.m.Tag].e
			if prev != nil {
				if e.Ts < prev.Ts {
					s.Violate("C01", "order", "stream %s: tag=%d (source ts %d) emitted after tag=%d (source ts %d)", vch, e.Tag, e.Ts, prev.Tag, prev.Ts)
				}
				if e.Ts == prev.Ts && prev.Kind == "ins" && e.Kind == "del" {
					s.Violate("C01", "order_eq", "stream %s: insert tag=%d precedes delete tag=%d of equal timestamp", vch, prev.Tag, e.Tag)
				}
				if e.Ts == prev.Ts {
					s.Probe("equal_ts_group")
				}
			}
			prev = e
		}
	}

	earlyParts := r.checkDrops(delivered, stopped, errEvent)
	partDropIssued := map[int64]int{} // partition -> step at which its drop request appeared
	for _, e := range r.Events {
		if e.Type == api.ReplicateDropPartition {
			if _, ok := partDropIssued[e.Part]; !ok {
				partDropIssued[e.Part] = e.Appear
			}
		}
	}
	if errEvent {
		for _, c := range sc.Colls {
			for _, pt := range c.Parts {
				if pt.Late >= 80 {
					s.Probe("R_unknown_partition_reported")
				}
			}
		}
	}
	// ---- C01 completeness
	if !errEvent {
		for vch, m := range delivered {
			coll, _ := parseVChan(vch)
			c := sc.coll(coll)
			if c == nil || stopped[coll] || c.State == "dropped" {
				continue
			}
			tags := make([]int64, 0, len(m))
			for t := range m {
				tags = append(tags, t)
			}
			sort.Slice(tags, func(i, j int) bool { return tags[i] < tags[j] })
			for _, t := range tags {
				ref := m[t]
				if emitted[vch][t] > 0 {
					continue
				}
				if p := c.part(ref.e.Part); p != nil && p.State == "dropped" && !p.PreTarget {
					s.Probe("filtered_both_sides_dropped")
					continue // dropped on both sides before the run
				}
				if at, ok := partDropIssued[ref.e.Part]; ok && at <= ref.dp.Step {
					// the partition's drop had been replayed when (or before) this message was handled:
					// "dropped on both sides" by the property's own exemption. Whether that replay was
					// premature is C04's question (drop_early*), decided from the barrier signals.
					s.Probe("filtered_after_partition_drop")
					continue
				}
				if earlyParts[ref.e.Part] {
					// consequence of a partition drop replayed before every shard reached it (C04 drop_early_partial_barrier)
					s.Violate("C01", "missing_after_early_partition_drop", "stream %s: source message type=%s tag=%d of partition %d was filtered because the partition's drop had already been replayed although this shard had not reached it", vch, ref.e.Kind, t, ref.e.Part)
					continue
				}
				s.Violate("C01", "missing", "stream %s: source message type=%s tag=%d ts=%d (read in pack ending at id %d, step %d) was never emitted", vch, ref.e.Kind, t, ref.e.Ts, ref.dp.EndSeq, ref.dp.Step)
				if ref.e.Kind == "imp" {
					for _, sid := range ref.e.Parts {
						if pt := c.part(sid); pt != nil && pt.Late >= 80 {
							s.Violate("C06", "R_unprocessable_message_skipped", "stream %s: import message tag=%d names partition %q, whose downstream id cannot be learned within the retry budget; it was left out and no error was reported", vch, t, pt.Name)
						}
					}
				}
				if pt := c.part(ref.e.Part); pt != nil && pt.Late >= 80 {
					// the message names a partition the downstream never makes known within the retry budget: it cannot be
					// processed, and the reader has to report that (the server then pauses the task) - no error event was seen
					s.Violate("C06", "R_unprocessable_message_skipped", "stream %s: message type=%s tag=%d names partition %q, whose downstream id cannot be learned within the retry budget; it was left out and no error was reported (the task would go on with a message missing)", vch, ref.e.Kind, t, pt.Name)
				}
			}
		}
	}

	r.checkTime(delivered)
	r.checkEvents()
	r.checkMapping()
	// a collection that is announced twice is started once: nobody asks for a second subscription of a channel that is
	// being read (property C13: being notified twice about the same object has no further effect; for the emitted stream it
	// would mean every message twice)
	for _, k := range r.mq.DupAttempts {
		s.Violate("C13", "R_started_twice", "a second subscription of %s was asked for while the first one was open: the collection was started twice", k)
		s.Violate("C01", "stream_opened_twice", "a second subscription of %s was asked for while the first one was open (every message of the stream would be read twice)", k)
	}
	for _, o := range r.ops {
		if o.op.Kind == "start2" && o.issued {
			s.Probe("R_second_announcement_checked")
		}
	}

	// probes
	for _, st := range r.mq.All {
		for _, dp := range st.Delivered {
			if dp.BeginTs == 0 {
				s.Probe("begin_ts_zero_pack")
			}
			if len(dp.Entries) == 0 {
				s.Probe("tick_only_source_pack")
			}
		}
	}
	if sc.Knobs.SrcNum > 0 && sc.Knobs.SrcNum < sc.Knobs.TgtNum && s.Plan.Prop == "C01" {
		// fewer source than downstream channels: a stream hosted by a handler that was built for another source channel
		for _, p := range r.Packs {
			if _, c := r.vchanFor(p.CollID, p.SrcPCh); c != nil && len(c.SrcV) == 1 && physOf(c.SrcV[0]) != "" {
				si, ti := -1, -1
				for i, sp := range sc.SrcP {
					if sp == physOf(c.SrcV[0]) {
						si = i
					}
				}
				for i, tp := range sc.TgtP {
					if tp == physOf(c.TgtV[0]) {
						ti = i
					}
				}
				if si >= 0 && ti >= 0 && si != ti {
					s.Probe("foreign_stream_pack_fewer_source_channels")
					break
				}
			}
		}
	}
	for q, colls := range dataPacksOnQueue {
		if len(colls) >= 2 {
			s.Probe("queue_shared_by_collections")
			_ = q
		}
	}
	for _, p := range r.Packs {
		vch, c := r.vchanFor(p.CollID, p.SrcPCh)
		if c == nil {
			continue
		}
		for i, v := range c.SrcV {
			if v == vch && i < len(c.TgtV) {
				hasData := false
				for _, m := range p.Msgs {
					if m.Type != "tick" {
						hasData = true
					}
				}
				if hasData && physOf(c.TgtV[i]) != "" && p.Queue == physOf(c.TgtV[i]) && r.handlerTargetOf(physOf(v)) != p.Queue {
					s.Probe("forwarded_pack")
				}
			}
		}
	}
}

func firstData(p *EmPack) int {
	for i, m := range p.Msgs {
		if m.Type != "tick" {
			return i
		}
	}
	return 0
}

func partDroppedAtStart(c *RColl, name string) bool {
	p := c.partByName(name)
	return p != nil && p.State == "dropped"
}

type posT struct {
	ch  string
	seq int
	ts  uint64
}

func toPosT(ps []*msgstream.MsgPosition) []*posT {
	var out []*posT
	for _, p := range ps {
		out = append(out, &posT{p.ChannelName, MsgIDToSeq(p.MsgID), p.Timestamp})
	}
	return out
}

// handlerTargetOf: the downstream channel on which tick-only packs of streams of
// this source pchannel were observed (= the handler's own channel).
func (r *RigR) handlerTargetOf(srcPCh string) string {
	for _, p := range r.Packs {
		if p.SrcPCh != srcPCh {
			continue
		}
		data := false
		for _, m := range p.Msgs {
			if m.Type != "tick" {
				data = true
			}
		}
		if !data {
			return p.Queue
		}
	}
	return ""
}

// checkPayload: C01 rule 4. Only ids, shard, positions and timestamps may differ.
func (r *RigR) checkPayload(c *RColl, e *REntry, m *EmMsg) {
	s := r.sim
	bad := func(what string, got, want any) {
		s.Violate("C01", "payload", "tag=%d type=%s: %s is %v, source had %v", e.Tag, e.Kind, what, got, want)
	}
	switch x := m.Raw.(type) {
	case *msgstream.InsertMsg:
		if len(x.RowIDs) != len(e.Rows) {
			bad("row id count", len(x.RowIDs), len(e.Rows))
			return
		}
		for i := range e.Rows {
			if x.RowIDs[i] != e.Rows[i] {
				bad("row ids", x.RowIDs, e.Rows)
				return
			}
		}
		if x.NumRows != uint64(len(e.Rows)) {
			bad("num rows", x.NumRows, len(e.Rows))
		}
		want := FieldsFor(e.Rows)
		if len(x.FieldsData) != len(want) {
			bad("field count", len(x.FieldsData), len(want))
			return
		}
		for i := range want {
			if !proto.Equal(x.FieldsData[i], want[i]) {
				bad("field "+want[i].FieldName, x.FieldsData[i], want[i])
			}
		}
		if x.PartitionName != e.PartName {
			bad("partition name", x.PartitionName, e.PartName)
		}
		if x.CollectionName != c.Name || x.DbName != c.DB {
			bad("names", x.DbName+"/"+x.CollectionName, c.DB+"/"+c.Name)
		}
		if len(x.Timestamps) != len(e.Rows) {
			bad("timestamp count", len(x.Timestamps), len(e.Rows))
		}
		if x.SegmentID != 77000+e.Tag || x.GetVersion().String() != "ColumnBased" {
			bad("segment/version", fmt.Sprint(x.SegmentID, x.GetVersion()), fmt.Sprint(77000+e.Tag, " ColumnBased"))
		}
		if len(x.HashValues) != 1 || x.HashValues[0] != uint32(e.Shard) {
			bad("hash values", x.HashValues, e.Shard)
		}
	case *msgstream.DeleteMsg:
		if !proto.Equal(x.PrimaryKeys, PKsFor(e.Rows)) {
			bad("primary keys", x.PrimaryKeys, PKsFor(e.Rows))
		}
		if x.NumRows != int64(len(e.Rows)) {
			bad("num rows", x.NumRows, len(e.Rows))
		}
		if x.PartitionName != e.PartName {
			bad("partition name", x.PartitionName, e.PartName)
		}
		if x.CollectionName != c.Name || x.DbName != c.DB {
			bad("names", x.DbName+"/"+x.CollectionName, c.DB+"/"+c.Name)
		}
		if len(x.Timestamps) != len(e.Rows) {
			bad("timestamp count", len(x.Timestamps), len(e.Rows))
		}
	case *msgstream.DropPartitionMsg:
		if x.PartitionName != e.PartName || x.CollectionName != c.Name || x.DbName != c.DB {
			bad("names", x.DbName+"/"+x.CollectionName+"/"+x.PartitionName, c.DB+"/"+c.Name+"/"+e.PartName)
		}
	case *msgstream.DropCollectionMsg:
		if x.CollectionName != c.Name || x.DbName != c.DB {
			bad("names", x.DbName+"/"+x.CollectionName, c.DB+"/"+c.Name)
		}
	}
}

// checkAddress: C02.
func (r *RigR) checkAddress(c *RColl, vch string, e *REntry, p *EmPack, m *EmMsg, shardMap, shardInv map[string]string) {
	s := r.sim
	if m.CollID != c.TgtID {
		s.Violate("C02", "collection_id", "tag=%d of %s carries collection id %d, downstream id of %q is %d", e.Tag, vch, m.CollID, c.Name, c.TgtID)
	}
	if m.Type == "imp" {
		// an import message names partitions by id: every source id has to be translated into the downstream id of the
		// same-named partition; one that cannot be resolved makes the message unprocessable (an error, not a hand-over)
		s.Probe("R_import_message_checked")
		want := map[int64]bool{}
		unresolvable := ""
		for _, sid := range e.Parts {
			if pt := c.part(sid); pt != nil {
				want[pt.TgtID] = true
				if pt.Late >= 80 {
					unresolvable = pt.Name
				}
			}
		}
		same := len(want) == len(m.PartIDs)
		for _, id := range m.PartIDs {
			same = same && want[id]
		}
		if !same {
			// known finding: the reader resolves the partitions of an import message by COUNT (when the downstream collection
			// has as many partitions as the message names, all of them are taken): recognised when every id handed over is the
			// downstream id of some partition of the collection
			cls := "_import_partition_count_heuristic"
			for _, id := range m.PartIDs {
				known := false
				for _, pt := range c.Parts {
					known = known || pt.TgtID == id
				}
				if !known {
					cls = ""
				}
			}
			s.Violate("C02", "partition_id"+cls, "import message tag=%d of %s carries partition ids %v, the downstream ids of the partitions it names are %v", e.Tag, vch, m.PartIDs, SortedInt64Keys(want))
			if unresolvable != "" {
				s.Violate("C06", "R_unprocessable_message_passed_on"+cls, "import message tag=%d of %s names partition %q, whose downstream id cannot be learned within the retry budget; it was handed over with partition ids %v and no error was reported", e.Tag, vch, unresolvable, m.PartIDs)
			}
		}
	}
	switch m.Type {
	case "ins", "del", "dropp":
		if m.Type == "del" && e.PartName == "" {
			break
		}
		if pt := c.partByName(e.PartName); pt != nil && m.PartID != pt.TgtID {
			s.Violate("C02", "partition_id", "tag=%d of %s (partition %q) carries partition id %d, downstream id is %d", e.Tag, vch, e.PartName, m.PartID, pt.TgtID)
		}
		if pt := c.partByName(e.PartName); pt != nil && pt.Late > 0 {
			s.Probe("late_partition_message")
		}
	}
	if m.Type == "ins" || m.Type == "del" {
		ok := false
		for _, tv := range c.TgtV {
			if tv == m.Shard {
				ok = true
			}
		}
		if !ok {
			s.Violate("C02", "shard_name", "tag=%d of %s carries shard %q which is not a downstream vchannel of %q %v", e.Tag, vch, m.Shard, c.Name, c.TgtV)
		} else {
			if prev, ok := shardMap[vch]; ok && prev != m.Shard {
				s.Violate("C02", "shard_pairing", "source shard %s was sent to %s and to %s", vch, prev, m.Shard)
			}
			if prev, ok := shardInv[m.Shard]; ok && prev != vch {
				s.Violate("C02", "shard_pairing", "downstream shard %s receives source shards %s and %s", m.Shard, prev, vch)
			}
			shardMap[vch], shardInv[m.Shard] = m.Shard, vch
			if physOf(m.Shard) != p.Queue {
				s.Violate("C02", "queue", "tag=%d carries shard %s but was handed over on the stream of %s", e.Tag, m.Shard, p.Queue)
			}
		}
	} else {
		// drop messages: delivered on the channel hosting the paired vchannel
		for i, v := range c.SrcV {
			if v == vch && i < len(c.TgtV) {
				want := sortedPair(c, vch)
				if want != "" && physOf(want) != p.Queue {
					s.Violate("C02", "queue", "%s tag=%d of %s handed over on %s, paired downstream vchannel %s lives on %s", m.Type, e.Tag, vch, p.Queue, want, physOf(want))
				}
			}
		}
	}
	if m.PosSeq != e.Seq {
		s.Violate("C02", "msg_msgid", "tag=%d of %s: position message id %d, source id %d", e.Tag, vch, m.PosSeq, e.Seq)
	}
	if m.PosCh != p.Queue && m.PosCh != m.Shard && !(m.Shard == "" && physOf(m.PosCh) == p.Queue) {
		s.Violate("C02", "msg_pos_channel", "tag=%d on %s: position names channel %q", e.Tag, p.Queue, m.PosCh)
	}
}

// sortedPair: the downstream vchannel at the same rank as vch among the sorted names.
func sortedPair(c *RColl, vch string) string {
	a := append([]string(nil), c.SrcV...)
	b := append([]string(nil), c.TgtV...)
	sort.Strings(a)
	sort.Strings(b)
	for i := range a {
		if a[i] == vch && i < len(b) {
			return b[i]
		}
	}
	return ""
}

// checkTime: C03 on every downstream channel. The rules are evaluated twice:
// on the order in which CDC computed the packs under the channel lock (reported
// by the verif note hook) and on the order in which they left the queue. A rule
// that fails only in queue order, while the two orders differ, is the
// "computed, then overtaken before the enqueue" window and is reported under
// its own rule id (overtake).
// checkResumeFloor (C03 across a restart): a collection that is started from a checkpoint was replicated up to that
// time before: the closing ticks acknowledged on its downstream channels reached at least the checkpoint's time. Once its
// stream is registered again, nothing may be emitted on those channels at or below that time.
func (r *RigR) checkResumeFloor(delivered map[string]map[int64]*srcRef) {
	s := r.sim
	for _, b := range r.sc.Colls {
		if b.ResumeTs == 0 {
			continue
		}
		for i, sv := range b.SrcV {
			if i >= len(b.TgtV) {
				continue
			}
			q := physOf(b.TgtV[i])
			reg := -1
			for _, st := range r.mq.All {
				if st.VCh == sv && (reg < 0 || st.RegStep < reg) {
					reg = st.RegStep
				}
			}
			if reg < 0 {
				continue
			}
			if r.handlerTargetOf(physOf(sv)) != q {
				// a collection on the forward path raises the floor of its handler's own channel, not of the channel its
				// packs are forwarded to: not judged (DESIGN.md, C03)
				s.Probe("resume_floor_forwarded_not_judged")
				continue
			}
			s.Probe("resume_floor_checked")
			for _, p := range r.Packs {
				if p.Queue != q {
					continue
				}
				for _, m := range p.Msgs {
					if m.Type == "tick" || m.Tag == 0 {
						continue
					}
					vch, _ := r.vchanFor(p.CollID, p.SrcPCh)
					ref := delivered[vch][m.Tag]
					if ref == nil || ref.dp.Step <= reg {
						continue // read before the resumed collection joined the channel
					}
					if m.Begin <= b.ResumeTs {
						s.Violate("C03", "below_resume_floor", "message tag=%d of collection %d was emitted on %s with time %d after collection %d had joined that channel from a checkpoint at %d (stream registered at step %d, message read at step %d): the channel's time went back below what was acknowledged before the restart", m.Tag, p.CollID, q, m.Begin, b.ID, b.ResumeTs, reg, ref.dp.Step)
						return
					}
				}
			}
		}
	}
}

func (r *RigR) checkTime(delivered map[string]map[int64]*srcRef) {
	s := r.sim
	r.checkResumeFloor(delivered)
	byQ := map[string][]*EmPack{}
	for _, p := range r.Packs {
		byQ[p.Queue] = append(byQ[p.Queue], p)
	}
	for _, q := range SortedKeys(byQ) {
		qv := r.timeRules(q, byQ[q], delivered)
		lo := r.lockOrdered(q, byQ[q])
		if lo == nil {
			for _, v := range qv {
				s.Violate("C03", v.Rule, "%s", v.Detail)
			}
			continue
		}
		differs := false
		for i := range lo {
			if lo[i] != byQ[q][i] {
				differs = true
			}
		}
		lv := r.timeRules(q, lo, delivered)
		inLock := map[string]bool{}
		for _, v := range lv {
			inLock[v.Rule] = true
			s.Violate("C03", v.Rule, "%s", v.Detail)
		}
		if differs {
			s.Probe("enqueue_overtaken")
		}
		for _, v := range qv {
			if inLock[v.Rule] {
				continue
			}
			if differs {
				s.Violate("C03", "overtake", "packs left the queue of %s in another order than they were computed under the channel lock, and in queue order: [%s] %s", q, v.Rule, v.Detail)
			} else {
				s.Violate("C03", v.Rule, "%s", v.Detail)
			}
		}
	}
}

// lockOrdered returns the packs of queue q in the order their closing ticks were
// computed under the channel lock, or nil if the two records cannot be matched.
func (r *RigR) lockOrdered(q string, packs []*EmPack) []*EmPack {
	r.noteMu.Lock()
	lo := append([]lockNote(nil), r.lockOrder[q]...)
	r.noteMu.Unlock()
	if len(lo) != len(packs) {
		return nil
	}
	used := make([]bool, len(packs))
	out := make([]*EmPack, 0, len(packs))
	for _, n := range lo {
		found := false
		for i, p := range packs {
			if !used[i] && p.Raw != nil && p.Raw == n.pack {
				used[i] = true
				out = append(out, p)
				found = true
				break
			}
		}
		if !found {
			return nil
		}
	}
	return out
}

func (r *RigR) timeRules(q string, packs []*EmPack, delivered map[string]map[int64]*srcRef) []Violation {
	var out []Violation
	seenRule := map[string]bool{}
	viol := func(rule, format string, a ...any) {
		if seenRule[rule] {
			return
		}
		seenRule[rule] = true
		out = append(out, Violation{Property: "C03", Rule: rule, Detail: fmt.Sprintf(format, a...)})
	}
	var maxTick uint64
	havePrev := false
	type seen struct {
		src, out uint64
		tag      int64
	}
	perShard := map[string][]seen{}
	for _, p := range packs {
		if len(p.Msgs) == 0 {
			viol("no_tick", "pack #%d on %s is empty", p.Idx, q)
			continue
		}
		last := p.Msgs[len(p.Msgs)-1]
		if last.Type != "tick" {
			viol("no_tick", "pack #%d on %s does not end with a time tick (last is %s)", p.Idx, q, last.Type)
			continue
		}
		tk := last.TickValue
		if last.Begin != tk || last.End != tk {
			viol("tick_fields", "pack #%d on %s: closing tick value %d but begin/end %d/%d", p.Idx, q, tk, last.Begin, last.End)
		}
		if havePrev && tk < maxTick {
			viol("tick_regress", "channel %s: pack #%d closes with tick %d after an earlier pack closed with %d", q, p.Idx, tk, maxTick)
		}
		var minTs, maxTs uint64
		n := 0
		for i, m := range p.Msgs {
			if m.Type == "tick" {
				if i != len(p.Msgs)-1 && i != 0 {
					viol("tick_fields", "pack #%d on %s has a tick in the middle", p.Idx, q)
				}
				continue
			}
			n++
			if havePrev && m.Begin <= maxTick {
				viol("msg_not_after_tick", "channel %s pack #%d: %s tag=%d has timestamp %d, not above the closing tick %d of an earlier pack", q, p.Idx, m.Type, m.Tag, m.Begin, maxTick)
			}
			if m.Begin > tk {
				viol("msg_after_own_tick", "channel %s pack #%d: %s tag=%d timestamp %d exceeds the pack's closing tick %d", q, p.Idx, m.Type, m.Tag, m.Begin, tk)
			}
			if m.Begin != m.End || m.PosTs != m.Begin {
				viol("msg_ts_agree", "channel %s pack #%d tag=%d: begin %d end %d position ts %d disagree", q, p.Idx, m.Tag, m.Begin, m.End, m.PosTs)
			}
			for _, rt := range m.RowTs {
				if rt != m.Begin {
					viol("msg_ts_agree", "channel %s pack #%d tag=%d: row timestamp %d, message timestamp %d", q, p.Idx, m.Tag, rt, m.Begin)
					break
				}
			}
			if n == 1 || m.Begin < minTs {
				minTs = m.Begin
			}
			if m.Begin > maxTs {
				maxTs = m.Begin
			}
			vch, _ := r.vchanFor(p.CollID, p.SrcPCh)
			if ref := delivered[vch][m.Tag]; ref != nil && m.Tag != 0 {
				perShard[vch] = append(perShard[vch], seen{ref.e.Ts, m.Begin, m.Tag})
			}
		}
		if n > 0 {
			if p.BeginTs > minTs || p.EndTs < maxTs || p.EndTs > tk {
				viol("pack_ts_agree", "channel %s pack #%d: begin/end %d/%d, messages span %d..%d, closing tick %d", q, p.Idx, p.BeginTs, p.EndTs, minTs, maxTs, tk)
			}
			for _, pos := range p.StartPos {
				if pos.Timestamp != p.BeginTs {
					viol("pack_ts_agree", "channel %s pack #%d: start position ts %d, begin ts %d", q, p.Idx, pos.Timestamp, p.BeginTs)
				}
			}
			for _, pos := range p.EndPos {
				if pos.Timestamp != p.EndTs {
					viol("pack_ts_agree", "channel %s pack #%d: end position ts %d, end ts %d", q, p.Idx, pos.Timestamp, p.EndTs)
				}
			}
		}
		if tk > maxTick || !havePrev {
			maxTick = tk
		}
		havePrev = true
	}
	for _, vch := range SortedKeys(perShard) {
		xs := perShard[vch]
		for i := 0; i < len(xs); i++ {
			for j := i + 1; j < len(xs); j++ {
				a, b := xs[i], xs[j]
				if (a.src < b.src && !(a.out < b.out)) || (a.src > b.src && !(a.out > b.out)) || (a.src == b.src && a.out != b.out) {
					viol("shard_order", "shard %s: tags %d,%d have source ts %d,%d but downstream ts %d,%d", vch, a.tag, b.tag, a.src, b.src, a.out, b.out)
				}
			}
		}
	}
	return out
}

// checkDrops: C04 on the event stream of the reader.
func (r *RigR) checkDrops(delivered map[string]map[int64]*srcRef, stopped map[int64]bool, errEvent bool) map[int64]bool {
	early := map[int64]bool{}
	s := r.sim
	sc := r.sc
	type key struct {
		coll int64
		part int64
	}
	dropEvents := map[key][]*EmEvent{}
	for _, e := range r.Events {
		switch e.Type {
		case api.ReplicateDropCollection:
			dropEvents[key{e.Coll, 0}] = append(dropEvents[key{e.Coll, 0}], e)
		case api.ReplicateDropPartition:
			dropEvents[key{e.Coll, e.Part}] = append(dropEvents[key{e.Coll, e.Part}], e)
		}
	}
	// which drops exist in the script, per object: shard -> entry
	type dropInfo struct {
		perShard map[string]*srcRef // vch -> delivered ref (nil if not delivered)
		ts       uint64
		name     string
	}
	drops := map[key]*dropInfo{}
	for _, c := range sc.Colls {
		for _, v := range c.SrcV {
			for _, e := range sc.Log[physOf(v)] {
				if e.Coll != c.ID || (e.Kind != "dropc" && e.Kind != "dropp") {
					continue
				}
				k := key{c.ID, 0}
				if e.Kind == "dropp" {
					k.part = e.Part
				}
				d := drops[k]
				if d == nil {
					d = &dropInfo{perShard: map[string]*srcRef{}, ts: e.Ts, name: e.PartName}
					drops[k] = d
				}
				d.perShard[v] = delivered[v][e.Tag]
			}
		}
	}
	for k, evs := range dropEvents {
		c := sc.coll(k.coll)
		what := fmt.Sprintf("collection %d", k.coll)
		if k.part != 0 {
			what = fmt.Sprintf("partition %d of collection %d", k.part, k.coll)
		}
		if len(evs) > 1 {
			s.Violate("C04", "drop_twice", "%d drop requests for %s", len(evs), what)
		}
		d := drops[k]
		if c == nil {
			s.Violate("C04", "drop_unknown", "drop request for unknown %s", what)
			continue
		}
		ev := evs[0]
		if ev.DB != c.DB || ev.CName != c.Name || (k.part != 0 && (c.part(k.part) == nil || ev.PName != c.part(k.part).Name)) {
			s.Violate("C04", "drop_names", "drop request for %s names db=%q collection=%q partition=%q", what, ev.DB, ev.CName, ev.PName)
		}
		preDropped := c.State == "dropped" || (k.part != 0 && c.part(k.part) != nil && c.part(k.part).State == "dropped")
		if d == nil {
			if !preDropped {
				s.Violate("C04", "drop_spurious", "drop request for %s which was never dropped at the source", what)
			}
			continue
		}
		rule := "drop_early"
		if so := r.opState("stop", k.coll); so != nil && so.done && ev.Appear > so.doneAt {
			// a drop request produced after the collection was stopped
			rule = "drop_after_stop"
			for _, st := range r.mq.All {
				if st.Coll == k.coll && st.RegStep > so.doneAt {
					// known defect: a stream whose registration was still in flight when the stop ran is leaked
					rule = "drop_after_stop_late_registration"
				}
			}
			s.Violate("C04", rule, "drop request for %s was issued (step %d) after the collection had been stopped (step %d)", what, ev.Appear, so.doneAt)
		}
		if k.part != 0 {
			// known defect: the partition barrier is sized by the handlers that had registered the
			// collection when AddPartition ran; distinguish that precondition from any other early drop
			for _, o := range r.ops {
				if o.op.Kind == "addpart" && o.op.Coll == k.coll && o.op.Part == k.part && o.done && (o.regAtDone < len(c.SrcV) || (o.regAtLoop > 0 && o.regAtLoop-1 < len(c.SrcV)) || (o.handlers > 0 && o.handlers < len(c.SrcV))) {
					rule = "drop_early_partial_barrier"
				}
			}
		}
		if !preDropped {
			// every shard's drop message must have reached the barrier before the request was issued
			wantID := c.TgtID
			if k.part != 0 && c.part(k.part) != nil {
				wantID = c.part(k.part).TgtID
			}
			for _, tv := range c.TgtV {
				got := false
				for _, sg := range r.sigs {
					if sg.tgtV == tv && sg.id == wantID && sg.step <= ev.Appear {
						got = true
					}
				}
				if !got {
					s.Violate("C04", rule, "drop request for %s was issued (visible at step %d) before the drop message of the shard replicated to %s had been handled", what, ev.Appear, tv)
					early[k.part] = k.part != 0
				}
			}
		}
		for _, v := range c.SrcV {
			ref := d.perShard[v]
			if preDropped {
				continue
			}
			if ref == nil {
				s.Violate("C04", rule, "drop request for %s issued (step %d) although shard %s never delivered its drop message", what, ev.Step, v)
				early[k.part] = k.part != 0
			} else if ref.dp.Step > ev.Step {
				s.Violate("C04", rule, "drop request for %s observed at step %d, shard %s delivered its drop message only at step %d", what, ev.Step, v, ref.dp.Step)
				early[k.part] = k.part != 0
			}
		}
		if len(c.SrcV) > 1 {
			s.Probe("multi_shard_barrier_fired")
		}
	}
	// a collection dropped at the source while the service was down (the catalog lists it as dropped, it still exists
	// downstream): its drop is owed exactly once after the start
	for _, c := range sc.Colls {
		if c.State != "dropped" || !c.Pre || stopped[c.ID] {
			continue
		}
		if errEvent {
			// an error reported by the reader excuses the missing drop only when something was injected that can explain it
			// (a refused query / registration, a partition whose downstream id is never learned)
			explained := false
			for k, v := range s.Stats {
				if strings.HasPrefix(k, "fault:") && v > 0 {
					explained = true
				}
			}
			for _, c2 := range sc.Colls {
				for _, pt := range c2.Parts {
					if pt.Late >= 80 {
						explained = true
					}
				}
			}
			if explained {
				continue
			}
			s.Probe("error_event_without_injected_fault")
		}
		if st := r.opState("start", c.ID); st == nil || !st.done || st.err != nil {
			continue
		}
		registered := 0
		for _, v := range c.SrcV {
			for _, st := range r.mq.All {
				if st.VCh == v {
					registered++
					break
				}
			}
		}
		if registered < len(c.SrcV) {
			continue // a stream could not be opened (injected refusal): nothing can be demanded
		}
		s.Probe("dropped_while_down_collection")
		if len(dropEvents[key{c.ID, 0}]) == 0 {
			s.Violate("C04", "drop_missing", "collection %d was dropped at the source while the service was down (it still exists downstream, the catalog lists it as dropped), but no drop request was issued within the drain budget", c.ID)
		}
	}
	// stop never produces a drop
	for coll := range stopped {
		if c := sc.coll(coll); c != nil && c.State == "dropped" {
			continue // dropped before the run: its drop is owed from the start, whether or not the collection is stopped later
		}
		if d := drops[key{coll, 0}]; d == nil {
			if len(dropEvents[key{coll, 0}]) > 0 {
				s.Violate("C04", "drop_on_stop", "stopping collection %d produced a drop request", coll)
			}
		}
	}
	// liveness at the end of the drain: every fully delivered drop of a replicated object produced its request
	if errEvent {
		return early
	}
	for k, d := range drops {
		c := sc.coll(k.coll)
		if c == nil || stopped[k.coll] || c.State == "dropped" {
			continue
		}
		if st := r.opState("start", k.coll); st == nil || !st.done || st.err != nil {
			continue
		}
		all := true
		for _, v := range c.SrcV {
			if d.perShard[v] == nil {
				all = false
			}
		}
		if !all {
			continue
		}
		if k.part != 0 {
			p := c.part(k.part)
			if p == nil || (p.State == "dropped" && !p.PreTarget) {
				continue
			}
			if p.State == "dropped" {
				s.Probe("dropped_while_down_partition")
			}
			var ap *rOpState
			for _, o := range r.ops {
				if o.op.Kind == "addpart" && o.op.Coll == k.coll && o.op.Part == k.part {
					ap = o
				}
			}
			if ap == nil || !ap.done || ap.err != nil {
				continue
			}
			// if the collection itself was dropped as well the partition drop may be subsumed
			if dc := drops[key{k.coll, 0}]; dc != nil {
				continue
			}
		}
		if len(dropEvents[k]) == 0 {
			what := fmt.Sprintf("collection %d", k.coll)
			if k.part != 0 {
				what = fmt.Sprintf("partition %d (%s) of collection %d", k.part, d.name, k.coll)
			}
			s.Violate("C04", "drop_missing", "every shard of %s delivered the drop message but no drop request was issued within the drain budget", what)
		}
	}
	return early
}

// checkEvents: C20 (event part): the replication stamp of API events.
func (r *RigR) checkEvents() {
	s := r.sim
	sc := r.sc
	for _, e := range r.Events {
		c := sc.coll(e.Coll)
		if c == nil || e.Type == api.ReplicateError {
			continue
		}
		if !e.IsRep {
			s.Violate("C20", "event_not_replicate", "%s event for collection %d is not marked as a replication request", e.Type.String(), e.Coll)
		}
		if e.Task != c.Task {
			s.Violate("C20", "event_task", "%s event for collection %d carries task %q", e.Type.String(), e.Coll, e.Task)
		}
		var want uint64
		switch e.Type {
		case api.ReplicateCreateCollection:
			want = c.CreateTs
		case api.ReplicateCreatePartition:
			if p := c.part(e.Part); p != nil {
				want = p.CreateTs
			}
		case api.ReplicateDropCollection, api.ReplicateDropPartition:
			if c.State == "dropped" {
				continue
			}
			if e.Type == api.ReplicateDropPartition {
				if p := c.part(e.Part); p != nil && p.State == "dropped" {
					continue
				}
			}
			for _, v := range c.SrcV {
				for _, en := range sc.Log[physOf(v)] {
					if en.Coll == c.ID && ((e.Type == api.ReplicateDropCollection && en.Kind == "dropc") || (e.Type == api.ReplicateDropPartition && en.Kind == "dropp" && en.Part == e.Part)) {
						want = en.Ts
					}
				}
			}
			s.Probe("drop_event_ts_checked")
		}
		if want != 0 && e.Ts != want {
			rule := "event_ts"
			if e.Type == api.ReplicateDropCollection || e.Type == api.ReplicateDropPartition {
				// known defect: the barrier goroutine reads the drop message's time while/after the stream
				// goroutine re-stamps it; recognisable because the value is one that message was re-stamped to
				for _, p := range r.Packs {
					for _, m := range p.Msgs {
						if ((e.Type == api.ReplicateDropCollection && m.Type == "dropc") || (e.Type == api.ReplicateDropPartition && m.Type == "dropp" && m.PartName == e.PName)) && p.CollID == e.Coll {
							r.noteMu.Lock()
							for _, rg := range r.resets[p.Raw] {
								if e.Ts >= rg[0] && e.Ts <= rg[1] {
									rule = "event_ts_rewritten"
								}
							}
							r.noteMu.Unlock()
						}
					}
				}
			}
			s.Violate("C20", rule, "%s event for collection %d partition %d carries timestamp %d, the source operation time is %d", e.Type.String(), e.Coll, e.Part, e.Ts, want)
		}
	}
}

func (r *RigR) checkMapping() {}
