package sim

import (
	"context"
	"encoding/binary"
	"errors"
	"fmt"
	"sort"
	"strings"
	"sync"

	"github.com/milvus-io/milvus-proto/go-api/v2/commonpb"
	"github.com/milvus-io/milvus-proto/go-api/v2/msgpb"
	"github.com/milvus-io/milvus-proto/go-api/v2/schemapb"
	"github.com/milvus-io/milvus/pkg/mq/common"
	"github.com/milvus-io/milvus/pkg/mq/msgdispatcher"
	"github.com/milvus-io/milvus/pkg/mq/msgstream"
)

// SimMQ is the simulated source message queue: one ordered log per physical
// channel, handed out per virtual channel the way MqTtMsgStream +
// msgdispatcher do (see DESIGN.md 2.4).
type SimMQ struct {
	sim *Sim
	mu  sync.Mutex
	// log per pchannel
	Logs    map[string][]*REntry
	Colls   func(id int64) *RColl
	streams map[string]*SimStream // by vchannel, current registration
	All     []*SimStream          // every registration ever made (history)
	// DupAttempts: keys of the registrations that were asked for while a registration of the same channel was open
	DupAttempts []string
	posMemo     map[string]*msgpb.MsgPosition
	ddlMemo     map[string]msgstream.TsMsg
	RegErr      func(vch string) bool
	// Published, when set, returns the index of the first log entry of pch not yet
	// published at this moment ("latest" for Pos == nil registrations); nil = 0.
	Published func(pch string) int
	// Plain pchannels are read through a non time-tick stream: one message per pack, seek exclusive
	// (the replicate channel carrying operation messages).
	Plain map[string]bool
	// Dynamic: the logs grow during the run (Append); a registration without position starts at the current end
	Dynamic bool
	// NoPark: registrations are not scheduling points
	NoPark bool
	// DbName used in messages for a collection
	regSeq int
}

type DeliveredPack struct {
	EndSeq  int
	EndTs   uint64
	BeginTs uint64
	Entries []*REntry
	Step    int
}

type SimStream struct {
	mq        *SimMQ
	VCh, PCh  string
	Coll      int64
	Shard     int
	Ch        chan *msgstream.MsgPack
	next      int // index into the pchannel log
	lastTick  uint64
	lastSeq   int
	first     bool
	filterTs  uint64
	skipping  bool
	startPos  *msgpb.MsgPosition
	pending   []*REntry
	Closed    bool
	CloseStep int // scheduler step at which the stream was deregistered
	Delivered []*DeliveredPack
	RegNo     int
	RegStep   int
	plain     bool
	Client    string
	Next0     int // index into the pchannel log at registration
	SeekNil   bool
	SeekSeq   int
	SeekTs    uint64
	SeekCh    string // channel name carried by the seek position
}

func NewSimMQ(s *Sim, logs map[string][]*REntry, colls func(int64) *RColl) *SimMQ {
	return &SimMQ{sim: s, Logs: logs, Colls: colls, streams: map[string]*SimStream{}, posMemo: map[string]*msgpb.MsgPosition{}, ddlMemo: map[string]msgstream.TsMsg{}}
}

func SeqToMsgID(seq int) []byte {
	b := make([]byte, 8)
	binary.BigEndian.PutUint64(b, uint64(seq))
	return b
}

func MsgIDToSeq(b []byte) int {
	if len(b) != 8 {
		return -1
	}
	return int(binary.BigEndian.Uint64(b))
}

// ---- msgdispatcher.Client

var _ msgdispatcher.Client = (*SimMQ)(nil)

func (m *SimMQ) Register(ctx context.Context, cfg *msgdispatcher.StreamConfig) (<-chan *msgstream.MsgPack, error) {
	return m.register(ctx, "", cfg)
}

// SimMQClient is one msgdispatcher client (its own vchannel namespace) on the shared queue.
type SimMQClient struct {
	m  *SimMQ
	ID string
}

func (m *SimMQ) NewClient(id string) *SimMQClient { return &SimMQClient{m: m, ID: id} }

func (c *SimMQClient) Register(ctx context.Context, cfg *msgdispatcher.StreamConfig) (<-chan *msgstream.MsgPack, error) {
	return c.m.register(ctx, c.ID, cfg)
}
func (c *SimMQClient) Deregister(vchannel string) { c.m.deregister(c.ID, vchannel) }
func (c *SimMQClient) Close()                     {}

func skey(client, vch string) string {
	if client == "" {
		return vch
	}
	return client + "|" + vch
}

// Key identifies the stream among all clients.
func (st *SimStream) Key() string { return skey(st.Client, st.VCh) }

func (m *SimMQ) register(ctx context.Context, cid string, cfg *msgdispatcher.StreamConfig) (<-chan *msgstream.MsgPack, error) {
	vch := cfg.VChannel
	key := skey(cid, vch)
	var o Outcome
	if m.NoPark {
		o = Outcome{}
	} else {
		o = m.sim.Park(ctx, "reg", key, nil)
	}
	if o.CtxErr != nil {
		return nil, o.CtxErr
	}
	if o.Fault != "" {
		return nil, errors.New("sim: broker refused the subscription")
	}
	m.mu.Lock()
	defer m.mu.Unlock()
	pch := physOf(vch)
	if _, ok := m.Logs[pch]; !ok {
		return nil, fmt.Errorf("sim: topic %s not found", pch)
	}
	if old := m.streams[key]; old != nil && !old.Closed {
		// a second subscription of a channel that is being read already (refused here; the oracles of the reader rig take it
		// for what it is: a collection started twice)
		m.DupAttempts = append(m.DupAttempts, key)
		m.sim.Side("second registration of %s while the first is open", key)
		return nil, fmt.Errorf("sim: vchannel %s already registered", vch)
	}
	st := &SimStream{mq: m, VCh: vch, PCh: pch, Ch: make(chan *msgstream.MsgPack, 1), first: true, Client: cid}
	st.Coll, st.Shard = parseVChan(vch)
	m.regSeq++
	st.RegNo = m.regSeq
	st.RegStep = m.sim.Step
	if m.Plain[pch] {
		st.plain = true
		log := m.Logs[pch]
		if cfg.Pos == nil || len(cfg.Pos.MsgID) == 0 {
			st.SeekNil = true
			st.next = m.latestIndex(pch)
		} else {
			seq := MsgIDToSeq(cfg.Pos.MsgID)
			st.SeekSeq = seq
			st.next = sort.Search(len(log), func(i int) bool { return log[i].Seq > seq })
		}
		st.Next0 = st.next
		m.streams[key] = st
		m.All = append(m.All, st)
		m.sim.Side("registered %s (plain) seeknil=%v seq=%d", key, st.SeekNil, st.SeekSeq)
		return st.Ch, nil
	}
	if cfg.Pos == nil || len(cfg.Pos.MsgID) == 0 {
		st.SeekNil = true
		st.next = m.latestIndex(pch)
	} else {
		seq := MsgIDToSeq(cfg.Pos.MsgID)
		if seq < 0 {
			return nil, fmt.Errorf("sim: bad message id %x", cfg.Pos.MsgID)
		}
		st.SeekSeq = seq
		st.SeekTs = cfg.Pos.Timestamp
		st.SeekCh = cfg.Pos.ChannelName
		log := m.Logs[pch]
		st.next = sort.Search(len(log), func(i int) bool { return log[i].Seq >= seq })
		st.filterTs = cfg.Pos.Timestamp
		st.skipping = true
		st.startPos = &msgpb.MsgPosition{ChannelName: pch, MsgID: cfg.Pos.MsgID, Timestamp: cfg.Pos.Timestamp, MsgGroup: cfg.Pos.MsgGroup}
		st.lastSeq = seq
	}
	st.Next0 = st.next
	m.streams[key] = st
	m.All = append(m.All, st)
	m.sim.Side("registered %s seeknil=%v seq=%d ts=%d", key, st.SeekNil, st.SeekSeq, st.SeekTs)
	return st.Ch, nil
}

func (m *SimMQ) latestIndex(pch string) int {
	if m.Published != nil {
		return m.Published(pch)
	}
	if m.Dynamic {
		return len(m.Logs[pch])
	}
	return 0
}

// Append publishes entries on a pchannel (dynamic logs: rig S), assigning message ids.
func (m *SimMQ) Append(pch string, es ...*REntry) {
	m.mu.Lock()
	defer m.mu.Unlock()
	log := m.Logs[pch]
	last := 0
	if len(log) > 0 {
		last = log[len(log)-1].Seq
	}
	for _, e := range es {
		last++
		e.Seq = last
		log = append(log, e)
	}
	m.Logs[pch] = log
}

// LastSeq is the message id of the newest entry of a pchannel (0 = empty).
func (m *SimMQ) LastSeq(pch string) int {
	m.mu.Lock()
	defer m.mu.Unlock()
	log := m.Logs[pch]
	if len(log) == 0 {
		return 0
	}
	return log[len(log)-1].Seq
}

func (m *SimMQ) Deregister(vchannel string) { m.deregister("", vchannel) }

func (m *SimMQ) deregister(cid, vchannel string) {
	m.mu.Lock()
	defer m.mu.Unlock()
	if st := m.streams[skey(cid, vchannel)]; st != nil && !st.Closed {
		st.Closed = true
		st.CloseStep = m.sim.Step
		close(st.Ch)
		m.sim.Side("deregistered %s", skey(cid, vchannel))
	}
}

func (m *SimMQ) Close() {}

func parseVChan(v string) (int64, int) {
	i := strings.LastIndex(v, "_")
	var c int64
	var s int
	fmt.Sscanf(v[i+1:], "%dv%d", &c, &s)
	return c, s
}

// Streams returns the live streams sorted by vchannel.
func (m *SimMQ) Streams() []*SimStream {
	m.mu.Lock()
	defer m.mu.Unlock()
	var out []*SimStream
	for _, st := range m.streams {
		if !st.Closed {
			out = append(out, st)
		}
	}
	sort.Slice(out, func(i, j int) bool { return out[i].Key() < out[j].Key() })
	return out
}

func (m *SimMQ) Stream(vch string) *SimStream {
	m.mu.Lock()
	defer m.mu.Unlock()
	return m.streams[vch]
}

// CanDeliver: the stream is open, its hand-off slot is free and the log holds a
// further complete pack (a closing tick) for it.
func (st *SimStream) CanDeliver() bool {
	if st.Closed || len(st.Ch) != 0 {
		return false
	}
	if st.plain {
		return st.next < len(st.mq.Logs[st.PCh])
	}
	log := st.mq.Logs[st.PCh]
	skipping := st.skipping
	for i := st.next; i < len(log); i++ {
		if log[i].Kind == "tick" {
			if skipping {
				if log[i].Ts >= st.filterTs {
					skipping = false
				}
				continue
			}
			return true
		}
	}
	return false
}

// Deliver builds the next pack for the stream and puts it into the hand-off slot.
func (st *SimStream) Deliver() *DeliveredPack {
	m := st.mq
	m.mu.Lock()
	defer m.mu.Unlock()
	log := m.Logs[st.PCh]
	if st.plain {
		if st.next >= len(log) {
			return nil
		}
		e := log[st.next]
		st.next++
		pos := &msgpb.MsgPosition{ChannelName: st.PCh, MsgID: SeqToMsgID(e.Seq), Timestamp: e.Ts}
		pack := &msgstream.MsgPack{BeginTs: e.Ts, EndTs: e.Ts, StartPositions: []*msgpb.MsgPosition{pos}, EndPositions: []*msgpb.MsgPosition{pos}}
		if e.Op != nil {
			msg := wdOpMsg(e.Op)
			if msg != nil {
				msg.SetPosition(pos)
				pack.Msgs = []msgstream.TsMsg{msg}
			}
		}
		dp := &DeliveredPack{EndSeq: e.Seq, EndTs: e.Ts, BeginTs: e.Ts, Entries: []*REntry{e}, Step: m.sim.Step}
		st.Delivered = append(st.Delivered, dp)
		st.Ch <- pack
		return dp
	}
	var tick *REntry
	for st.next < len(log) {
		e := log[st.next]
		st.next++
		if e.Kind == "tick" {
			if st.skipping {
				if e.Ts >= st.filterTs {
					st.skipping = false
				}
				continue
			}
			tick = e
			break
		}
		if st.skipping && e.Ts <= st.filterTs {
			continue
		}
		if st.wants(e) {
			st.pending = append(st.pending, e)
		}
	}
	if tick == nil {
		return nil
	}
	var mine, rest []*REntry
	for _, e := range st.pending {
		if e.Ts <= tick.Ts {
			mine = append(mine, e)
		} else {
			rest = append(rest, e)
		}
	}
	st.pending = rest
	pack := &msgstream.MsgPack{BeginTs: st.lastTick, EndTs: tick.Ts}
	if st.first {
		pack.BeginTs = 0
	}
	var start *msgpb.MsgPosition
	if st.first && st.startPos != nil {
		start = st.startPos
	} else {
		start = m.pos(st.PCh, st.lastSeq, st.lastTick)
	}
	pack.StartPositions = []*msgpb.MsgPosition{start}
	pack.EndPositions = []*msgpb.MsgPosition{m.pos(st.PCh, tick.Seq, tick.Ts)}
	for _, e := range mine {
		pack.Msgs = append(pack.Msgs, m.buildMsg(st, e))
	}
	dp := &DeliveredPack{EndSeq: tick.Seq, EndTs: tick.Ts, BeginTs: pack.BeginTs, Entries: mine, Step: m.sim.Step}
	st.Delivered = append(st.Delivered, dp)
	st.first = false
	st.lastTick = tick.Ts
	st.lastSeq = tick.Seq
	st.Ch <- pack
	return dp
}

func (st *SimStream) wants(e *REntry) bool {
	switch e.Kind {
	case "ins", "del", "imp":
		return e.Coll == st.Coll && e.Shard == st.Shard
	case "createc", "dropc", "createp", "dropp":
		return strings.Contains(st.VCh, fmt.Sprint(e.Coll))
	case "other":
		return e.Coll == st.Coll
	}
	return false
}

// pos returns the (shared) position object of a log entry: the dispatcher hands
// the same position pointers to every vchannel of a pchannel.
func (m *SimMQ) pos(pch string, seq int, ts uint64) *msgpb.MsgPosition {
	k := fmt.Sprintf("%s/%d/%d", pch, seq, ts)
	if p := m.posMemo[k]; p != nil {
		return p
	}
	p := &msgpb.MsgPosition{ChannelName: pch, MsgID: SeqToMsgID(seq), Timestamp: ts}
	m.posMemo[k] = p
	return p
}

// ---- message construction (also used by the oracle to rebuild the expected payload)

func FieldsFor(rows []int64) []*schemapb.FieldData {
	pk := make([]int64, len(rows))
	vs := make([]string, len(rows))
	vec := make([]float32, 0, len(rows)*2)
	for i, r := range rows {
		pk[i] = r*7 + 1
		vs[i] = fmt.Sprintf("row-%d", r)
		vec = append(vec, float32(r%97), float32(r%13)/4)
	}
	return []*schemapb.FieldData{
		{Type: schemapb.DataType_Int64, FieldName: "pk", FieldId: 100, Field: &schemapb.FieldData_Scalars{Scalars: &schemapb.ScalarField{Data: &schemapb.ScalarField_LongData{LongData: &schemapb.LongArray{Data: pk}}}}},
		{Type: schemapb.DataType_VarChar, FieldName: "txt", FieldId: 101, Field: &schemapb.FieldData_Scalars{Scalars: &schemapb.ScalarField{Data: &schemapb.ScalarField_StringData{StringData: &schemapb.StringArray{Data: vs}}}}},
		{Type: schemapb.DataType_FloatVector, FieldName: "vec", FieldId: 102, Field: &schemapb.FieldData_Vectors{Vectors: &schemapb.VectorField{Dim: 2, Data: &schemapb.VectorField_FloatVector{FloatVector: &schemapb.FloatArray{Data: vec}}}}},
	}
}

func PKsFor(rows []int64) *schemapb.IDs {
	pk := make([]int64, len(rows))
	for i, r := range rows {
		pk[i] = r*7 + 1
	}
	return &schemapb.IDs{IdField: &schemapb.IDs_IntId{IntId: &schemapb.LongArray{Data: pk}}}
}

func tsSlice(n int, ts uint64) []uint64 {
	out := make([]uint64, n)
	for i := range out {
		out[i] = ts
	}
	return out
}

func (m *SimMQ) buildMsg(st *SimStream, e *REntry) msgstream.TsMsg {
	c := m.Colls(e.Coll)
	db, name := "default", fmt.Sprintf("coll-%d", e.Coll)
	if c != nil {
		db, name = c.DB, c.Name
	}
	base := msgstream.BaseMsg{BeginTimestamp: e.Ts, EndTimestamp: e.Ts, HashValues: []uint32{uint32(e.Shard)},
		MsgPosition: &msgpb.MsgPosition{ChannelName: st.PCh, MsgID: SeqToMsgID(e.Seq)}}
	mb := func(t commonpb.MsgType) *commonpb.MsgBase {
		return &commonpb.MsgBase{MsgType: t, MsgID: e.Tag, Timestamp: e.Ts, SourceID: 1}
	}
	switch e.Kind {
	case "ins":
		return &msgstream.InsertMsg{BaseMsg: base, InsertRequest: &msgpb.InsertRequest{
			Base: mb(commonpb.MsgType_Insert), ShardName: st.VCh, DbName: db, CollectionName: name, PartitionName: e.PartName,
			DbID: 1, CollectionID: e.Coll, PartitionID: e.Part, SegmentID: 77000 + e.Tag,
			Timestamps: tsSlice(len(e.Rows), e.Ts), RowIDs: append([]int64(nil), e.Rows...), FieldsData: FieldsFor(e.Rows),
			NumRows: uint64(len(e.Rows)), Version: msgpb.InsertDataVersion_ColumnBased,
		}}
	case "del":
		pid := e.Part
		if pid < 0 {
			pid = -1
		}
		return &msgstream.DeleteMsg{BaseMsg: base, DeleteRequest: &msgpb.DeleteRequest{
			Base: mb(commonpb.MsgType_Delete), ShardName: st.VCh, DbName: db, CollectionName: name, PartitionName: e.PartName,
			DbID: 1, CollectionID: e.Coll, PartitionID: pid, Timestamps: tsSlice(len(e.Rows), e.Ts), NumRows: int64(len(e.Rows)),
			PrimaryKeys: PKsFor(e.Rows),
		}}
	}
	if e.Kind == "imp" {
		return &msgstream.ImportMsg{BaseMsg: base, ImportMsg: &msgpb.ImportMsg{
			Base: mb(commonpb.MsgType_Import), DbName: db, CollectionName: name, CollectionID: e.Coll,
			PartitionIDs: append([]int64(nil), e.Parts...), JobID: e.Tag,
		}}
	}
	// DDL messages are shared between the vchannels of one pchannel
	k := fmt.Sprintf("%s/%d", st.PCh, e.Seq)
	if x := m.ddlMemo[k]; x != nil {
		return x
	}
	var out msgstream.TsMsg
	switch e.Kind {
	case "dropp":
		out = &msgstream.DropPartitionMsg{BaseMsg: base, DropPartitionRequest: &msgpb.DropPartitionRequest{
			Base: mb(commonpb.MsgType_DropPartition), DbName: db, CollectionName: name, PartitionName: e.PartName, DbID: 1, CollectionID: e.Coll, PartitionID: e.Part}}
	case "dropc":
		out = &msgstream.DropCollectionMsg{BaseMsg: base, DropCollectionRequest: &msgpb.DropCollectionRequest{
			Base: mb(commonpb.MsgType_DropCollection), DbName: db, CollectionName: name, DbID: 1, CollectionID: e.Coll}}
	case "createp":
		out = &msgstream.CreatePartitionMsg{BaseMsg: base, CreatePartitionRequest: &msgpb.CreatePartitionRequest{
			Base: mb(commonpb.MsgType_CreatePartition), DbName: db, CollectionName: name, PartitionName: e.PartName, DbID: 1, CollectionID: e.Coll, PartitionID: e.Part}}
	case "createc":
		out = &msgstream.CreateCollectionMsg{BaseMsg: base, CreateCollectionRequest: &msgpb.CreateCollectionRequest{
			Base: mb(commonpb.MsgType_CreateCollection), DbName: db, CollectionName: name, DbID: 1, CollectionID: e.Coll}}
	default:
		// a message type the replicator does not support
		out = &msgstream.DataNodeTtMsg{BaseMsg: base, DataNodeTtMsg: &msgpb.DataNodeTtMsg{Base: mb(commonpb.MsgType_DataNodeTt), ChannelName: st.VCh, Timestamp: e.Ts}}
	}
	m.ddlMemo[k] = out
	return out
}

// ---- msgstream.Factory used only for CheckConnection / GetChannelLatestMsgID (non-parking)

type SimFactory struct {
	MQ      *SimMQ
	ConnErr func(pch string) error
}

func (f *SimFactory) NewMsgStream(ctx context.Context) (msgstream.MsgStream, error) {
	return &simStreamStub{f: f}, nil
}
func (f *SimFactory) NewTtMsgStream(ctx context.Context) (msgstream.MsgStream, error) {
	return &simStreamStub{f: f}, nil
}
func (f *SimFactory) NewMsgStreamDisposer(ctx context.Context) func([]string, string) error {
	return func([]string, string) error { return nil }
}

type simStreamStub struct {
	f   *SimFactory
	chs []string
}

type simMsgID struct{ seq int }

func (i simMsgID) Serialize() []byte        { return SeqToMsgID(i.seq) }
func (i simMsgID) AtEarliestPosition() bool { return i.seq == 0 }
func (i simMsgID) LessOrEqualThan(b []byte) (bool, error) {
	return i.seq <= MsgIDToSeq(b), nil
}
func (i simMsgID) Equal(b []byte) (bool, error) { return i.seq == MsgIDToSeq(b), nil }

func (s *simStreamStub) Close()                                            {}
func (s *simStreamStub) AsProducer(ctx context.Context, channels []string) {}
func (s *simStreamStub) Produce(context.Context, *msgstream.MsgPack) error { return nil }
func (s *simStreamStub) SetRepackFunc(repackFunc msgstream.RepackFunc)     {}
func (s *simStreamStub) GetProduceChannels() []string                      { return nil }
func (s *simStreamStub) Broadcast(context.Context, *msgstream.MsgPack) (map[string][]msgstream.MessageID, error) {
	return nil, nil
}
func (s *simStreamStub) AsConsumer(ctx context.Context, channels []string, subName string, position common.SubscriptionInitialPosition) error {
	s.chs = channels
	for _, c := range channels {
		if _, ok := s.f.MQ.Logs[c]; !ok {
			return fmt.Errorf("sim: topic %s not found", c)
		}
		if s.f.ConnErr != nil {
			if err := s.f.ConnErr(c); err != nil {
				return err
			}
		}
	}
	s.f.MQ.sim.Side("checkconn %s", strings.Join(channels, ","))
	return nil
}
func (s *simStreamStub) Chan() <-chan *msgstream.ConsumeMsgPack                { return nil }
func (s *simStreamStub) GetUnmarshalDispatcher() msgstream.UnmarshalDispatcher { return nil }
func (s *simStreamStub) Seek(ctx context.Context, msgPositions []*msgstream.MsgPosition, includeCurrentMsg bool) error {
	for _, p := range msgPositions {
		if len(p.MsgID) == 0 {
			return fmt.Errorf("when msgID's length equal to 0, please use AsConsumer interface")
		}
		if MsgIDToSeq(p.MsgID) < 0 {
			return fmt.Errorf("sim: bad message id")
		}
	}
	return nil
}
func (s *simStreamStub) GetLatestMsgID(channel string) (msgstream.MessageID, error) {
	m := s.f.MQ
	m.mu.Lock()
	defer m.mu.Unlock()
	log, ok := m.Logs[channel]
	if !ok {
		return nil, fmt.Errorf("sim: topic %s not found", channel)
	}
	idx := len(log)
	if m.Published != nil {
		idx = m.Published(channel)
	}
	if idx == 0 {
		return simMsgID{0}, nil
	}
	return simMsgID{log[idx-1].Seq}, nil
}
func (s *simStreamStub) CheckTopicValid(channel string) error { return nil }
func (s *simStreamStub) ForceEnableProduce(can bool)          {}
