package sim

import (
	"context"
	"encoding/binary"
	"encoding/json"
	"fmt"
	"github.com/google/uuid"
	"github.com/zilliztech/milvus-cdc/core/pb"
	"net/http"
	"net/http/httptest"
	"os"
	"runtime"
	"sort"
	"strings"
	"sync"
	"syscall"
	"testing"
	"testing/synctest"
	"time"

	"github.com/milvus-io/milvus-sdk-go/v2/client"
	"github.com/milvus-io/milvus/pkg/mq/msgdispatcher"
	"github.com/milvus-io/milvus/pkg/mq/msgstream"
	clientv3 "go.etcd.io/etcd/client/v3"
	"go.uber.org/zap/zapcore"

	"github.com/zilliztech/milvus-cdc/core/config"
	cdclog "github.com/zilliztech/milvus-cdc/core/log"
	coremeta "github.com/zilliztech/milvus-cdc/core/meta"
	"github.com/zilliztech/milvus-cdc/core/reader"
	"github.com/zilliztech/milvus-cdc/core/util"
	cdcwriter "github.com/zilliztech/milvus-cdc/core/writer"
	"github.com/zilliztech/milvus-cdc/server"
	serverapi "github.com/zilliztech/milvus-cdc/server/api"
	"github.com/zilliztech/milvus-cdc/server/metrics"
	"github.com/zilliztech/milvus-cdc/server/model/meta"
	"github.com/zilliztech/milvus-cdc/server/msgpacker"
	"github.com/zilliztech/milvus-cdc/server/store"
)

// ------------------------------------------------------------------ persisted world (survives a simulated crash)

type SOpRec struct {
	Idx    int    `json:"idx"`
	K      string `json:"k"`
	Task   string `json:"task,omitempty"`
	Code   int    `json:"code"`
	Msg    string `json:"msg,omitempty"`
	Inc    int    `json:"inc"`
	Step   int    `json:"step"`
	Issued int    `json:"issued"`           // step at which the request was sent
	Faults int    `json:"faults,omitempty"` // faults injected while the request was in flight
	Lost   bool   `json:"lost,omitempty"`   // the process died before answering
}

type SRegRec struct {
	VCh     string `json:"vch"`
	Inc     int    `json:"inc"`
	Step    int    `json:"step"`
	SeekNil bool   `json:"seek_nil"`
	SeekSeq int    `json:"seek_seq"`
	SeekTs  uint64 `json:"seek_ts"`
	Next    int    `json:"next"` // index into the pchannel log of the first entry considered
	Clock   int    `json:"clock"`
	// filled for data streams in the C03 runs: the downstream the stream belongs to, its collection, the downstream channels
	// of that collection at registration time, and the time (ms) of the checkpoint stored for (owner, collection, source
	// channel) when the stream was registered (-1: none)
	Tgt     int      `json:"tgt,omitempty"`
	Coll    int64    `json:"coll,omitempty"`
	Owner   string   `json:"owner,omitempty"`
	TgtPChs []string `json:"tgt_pchs,omitempty"`
	CkptMs  int64    `json:"ckpt_ms,omitempty"`
	// Closed / CloseStep: the stream was deregistered in its incarnation at that step
	Closed    bool `json:"closed,omitempty"`
	CloseStep int  `json:"close_step,omitempty"`
}

type SRejRec struct {
	Task string `json:"task"`
	Inc  int    `json:"inc"`
	Step int    `json:"step"`
}

type SMTask struct {
	ID      string `json:"id"`
	Spec    *SSpec `json:"spec"`
	State   string `json:"state"`
	Fuzzy   bool   `json:"fuzzy,omitempty"` // a fault or crash hit one of its operations: the model follows the store
	Faulted bool   `json:"faulted,omitempty"`
	OpPause bool   `json:"op_pause,omitempty"` // the operator paused it
}

type SState struct {
	Src           map[string][]byte                    `json:"src"`
	MetaEtcd      map[string][]byte                    `json:"meta_etcd,omitempty"`
	MetaSQL       map[string]map[string]map[string]any `json:"meta_sql,omitempty"`
	SDK           []*SDKState                          `json:"sdk"`
	Logs          map[string][]*REntry                 `json:"logs"`
	HistPos       int                                  `json:"hist_pos"`
	OpPos         int                                  `json:"op_pos"`
	Faults        map[string]int                       `json:"faults"`
	Crashes       int                                  `json:"crashes"`
	Steps         int                                  `json:"steps"`
	OpLog         []SOpRec                             `json:"op_log"`
	Regs          []SRegRec                            `json:"regs"`
	Tasks         map[string]*SMTask                   `json:"tasks"`
	Viol          []Violation                          `json:"viol,omitempty"`
	Probes        map[string]int                       `json:"probes,omitempty"`
	Stats         map[string]int                       `json:"stats,omitempty"`
	Frozen        map[string]string                    `json:"frozen,omitempty"` // task/coll -> canonical positions once dropped
	LogHits       []string                             `json:"log_hits,omitempty"`
	Rewritten     map[string]bool                      `json:"rewritten,omitempty"`       // task records written again after their deletion
	RewrittenPos  map[string]bool                      `json:"rewritten_pos,omitempty"`   // checkpoints written again after the deletion of their task
	Ambiguous     map[string]bool                      `json:"ambiguous,omitempty"`       // tasks hit by a store write that was applied but reported as failed
	InFlight      int                                  `json:"in_flight"`                 // index of the operator request in flight at the crash, -1 none
	Domain        map[string]int                       `json:"domain,omitempty"`          // "task|target|collection|shard" -> index into the pchannel log where the replication domain of that stream starts
	PosRace       map[string]bool                      `json:"pos_race,omitempty"`        // "task/collection" -> two read-modify-write cycles on that checkpoint record overlapped
	NoCkptSkipped map[string][]int64                   `json:"no_ckpt_skipped,omitempty"` // domain key -> tags skipped by a restart before the first checkpoint of a collection that existed downstream before the task
	TimeSkipped   map[string][]int64                   `json:"time_skipped,omitempty"`    // domain key -> tags dropped by a resume through the re-stamped checkpoint time
	Overtaken     map[string][]int64                   `json:"overtaken,omitempty"`       // domain key -> tags whose forwarded pack was overtaken by the checkpoint of their source channel
	Rejected      []SRejRec                            `json:"rejected,omitempty"`        // downstream write rejections attributed to a task
	Down          map[int]bool                         `json:"down,omitempty"`            // downstreams that currently reject every write
	BadPack       map[string]bool                      `json:"bad_pack,omitempty"`        // packs (by call key) the downstream refuses on every attempt
	LockOrder     map[string][][4]uint64               `json:"lock_order,omitempty"`      // C03 runs: downstream channel -> (incarnation, closing tick, end message id, step) of every pack in the order they were computed under the channel lock
	CkptHist      map[string][][2]int64                `json:"ckpt_hist,omitempty"`       // C03 runs: "task|collection|source pchannel" -> (message id, time in ms) of every version of the stored checkpoint, in the order they were seen
	StaleAck      map[string]bool                      `json:"stale_ack,omitempty"`       // "target|collection|shard" -> a pack of an earlier registration was acknowledged after the stream had been registered again
	Forwarded     map[string][][2]int                  `json:"forwarded,omitempty"`       // "collection|source pchannel" -> (start, end] message-id ranges of packs that took the forward path (hook H15)
	MsgCalls      int                                  `json:"msg_calls"`                 // running number of drop-message store calls
	ConnCalls     int                                  `json:"conn_calls"`                // running number of message-queue connection checks
	Overlap       map[string]bool                      `json:"overlap,omitempty"`         // tasks whose record was being updated by a background transition (failure pause) while an operator request on the same task was in flight
	SimSecs       float64                              `json:"sim_secs"`
	// C04 on the whole server
	DropSeenLast map[string][2]int `json:"drop_seen_last,omitempty"` // same key -> (incarnation, step) of the latest such delivery
	DropSeen     map[string][2]int `json:"drop_seen,omitempty"`      // "target|collection|shard" -> (incarnation, step) at which the drop message was first delivered to a stream of that downstream
	DropRecPrev  map[string]bool   `json:"drop_rec_prev,omitempty"`  // "target#ddl index" -> the drop-readiness record of that collection was in the store right before the step of the request
	DDLSeen      []int             `json:"ddl_seen,omitempty"`       // per downstream: DDL records already looked at
	DropSkipped  map[string]bool   `json:"drop_skipped,omitempty"`   // "target|collection|shard" -> a resume dropped the drop message through the time filter of its seek
	DownEvents   int               `json:"down_events,omitempty"`    // history events published while no incarnation was running
	CatDropAt    map[string][2]int `json:"cat_drop_at,omitempty"`    // collection id -> (incarnation, step) at which the source catalog began to show it as dropping
	PartialBar   map[string]bool   `json:"partial_bar,omitempty"`    // "target|partition id" -> the partition's barrier was sized while fewer than all shard streams of its collection were registered
	PubAt        map[string][2]int `json:"pub_at,omitempty"`         // "p<partition id>" -> (incarnation, step) at which its drop message was published at the source
	HistAtOp     int               `json:"hist_at_op,omitempty"`     // history position when the latest operator request was answered
	Discarded    map[string][2]int `json:"discarded,omitempty"`      // "task|event type|collection|partition" -> (incarnation, step): reader event thrown away by the event loop (hook H19)
	FirstReg     map[string][2]int `json:"first_reg,omitempty"`      // domain key -> (incarnation, step) of the first registration of that stream
}

// ------------------------------------------------------------------ rig

const (
	canaryToken = "TKN-CANARY-7f3a91"
	canaryPass  = "PWD-CANARY-9c1d42"
	canaryUser  = "usr-canary"
	canaryKPass = "KPW-CANARY-55aa07"
	canaryKUser = "KUS-CANARY-e2b8c4"
	kafkaAddr   = "kafka-x:9092"
	sRoot       = "cdc-root"
)

type RigS struct {
	s    *Sim
	sc   *SScript
	st   *SState
	plan *Plan

	src     *SimEtcd
	metaE   *SimEtcd
	metaQ   *SimSQL
	fac     serverapi.MetaStoreFactory
	obsFac  serverapi.MetaStoreFactory // same backend, separate handle: used by the oracles only
	mq      *SimMQ
	sdk     []*SimSDK
	cdc     *server.MetaCDC
	handler http.Handler

	direct    bool // the scheduler itself is calling through a seam (observation): never park
	reloaded  bool
	opBusy    bool
	opDone    *SOpRec
	opFaults  int
	opWrites  int
	rmwOpen   map[string]int
	rejCount  map[string]int
	bgPaused  map[int]bool   // downstreams on which a task was paused by a failure in this incarnation
	delivered map[string]int // "target|collection|shard" -> end message id of the last pack the CURRENT registration of that stream was given
	mu        sync.Mutex

	storeWrites        int // counter of store writes released (to trigger checkpoint checks)
	lastCkCheck        int
	regSeen            int
	collByID           map[int64]*SColl
	stdoutFile         string
	nClients           int
	pairTarget         map[int]int // dispatcher client pair -> target index (learned from the op-channel registration)
	snapBefore         string
	storeBefore        string
	haveBefore         bool
	pendingOp          *SOpRec
	lastStore          string
	pauseSeen          map[string]bool
	faultsAtStart      int
	storeFaultsAtStart int
	deletedAt          map[string]int
	bgTouched          map[int]bool    // downstreams on which the service touched a task record on its own in this incarnation
	stateFaulted       int             // scripted state-write faults used so far (this incarnation)
	partDropMemo       map[int64]bool  // partitions dropped at the source somewhere in the history
	prevRaw            string          // the persisted content at the previous scheduler step
	bgWriteStep        map[string]int  // task -> step of the last write of its record made while no request on it was in flight
	loopFailed         map[int]bool    // downstreams on which a task was paused by a failure met in one of the loops all tasks of the downstream share (event loop, per-channel write loop)
	recovered          map[string]bool // tasks the recovery phase resumed (the request was answered 200)
	connFailSteps      []int           // steps at which a connection check of the message queue was refused (this incarnation)
	leakedAtPause      map[string]bool // "target|collection|shard" of streams found registered for a Paused task when the recovery phase began
}

func (r *RigS) gate(kind string) Gate {
	return func(ctx context.Context, k, key string) Outcome {
		if r.direct {
			return Outcome{}
		}
		if kind == "store" && strings.Contains(key, "task_msg") {
			// the drop-message store is called with ReplicateMeteImpl's lock held: parking here would leave other
			// goroutines blocked on a mutex (not durably blocked). These calls complete at once; the script names the
			// calls (by their running number) that fail.
			r.mu.Lock()
			n := r.st.MsgCalls
			r.st.MsgCalls++
			r.mu.Unlock()
			isRead := strings.Contains(key, ":get:") || strings.Contains(key, "query:")
			if !isRead && !r.s.Draining {
				for _, f := range r.sc.MsgFaults {
					if f == n {
						r.s.Stat("fault:taskmsg_store_err")
						r.s.Side("store(np) %s -> injected error", key)
						return Outcome{Fault: "store_err_before"}
					}
				}
			}
			r.s.Side("store(np) %s", key)
			return Outcome{}
		}
		if kind == "store" && r.sc.StateFaults > 0 && !r.s.Draining && r.isReloaded() && (strings.Contains(key, ":put:") || strings.Contains(key, "exec:INSERT INTO task_info:")) {
			if i := strings.LastIndex(key, "task_info"); i >= 0 && i+len("task_info")+1 <= len(key) {
				id := key[i+len("task_info")+1:]
				if j := strings.IndexAny(id, ",# /"); j >= 0 {
					id = id[:j]
				}
				r.mu.Lock()
				own := r.opBusy && r.st.InFlight >= 0 && r.sc.Ops[r.st.InFlight].Task == id
				hit := id != "" && !own && r.stateFaulted < r.sc.StateFaults
				if hit {
					r.stateFaulted++
				}
				r.mu.Unlock()
				if hit {
					// scripted: the state write of a pause the service makes on its own is refused (not parked: the same outcome
					// whenever it comes)
					r.s.Stat("fault:store_err_before")
					r.s.Stat("fault:state_write_refused")
					r.s.Side("store %s -> injected error (scripted state-write fault)", key)
					return Outcome{Fault: "store_err_before"}
				}
			}
		}
		o := r.s.Park(ctx, kind, key, nil)
		return o
	}
}

type simFactoryCreator struct {
	mq      *SimMQ
	connErr func(pch string) error
}

func (c *simFactoryCreator) NewPmsFactory(cfg *config.PulsarConfig) msgstream.Factory {
	return &SimFactory{MQ: c.mq, ConnErr: c.connErr}
}
func (c *simFactoryCreator) NewKmsFactory(cfg *config.KafkaConfig) msgstream.Factory {
	return &SimFactory{MQ: c.mq, ConnErr: c.connErr}
}

// mqConnErr: the connection check of a source channel (made while a collection is being started, under the channel
// manager's lock, hence not parked) fails for the calls whose running number the script names.
func (r *RigS) mqConnErr(pch string) error {
	r.mu.Lock()
	n := r.st.ConnCalls
	r.st.ConnCalls++
	r.mu.Unlock()
	if r.s.Draining || r.direct {
		return nil
	}
	for _, f := range r.sc.ConnFaults {
		if f == n {
			r.s.Stat("fault:mq_conn_err")
			r.mu.Lock()
			r.connFailSteps = append(r.connFailSteps, r.s.Step)
			r.mu.Unlock()
			r.s.Side("mq connection check of %s -> injected error", pch)
			return fmt.Errorf("sim: connection refused by the message queue (%s)", pch)
		}
	}
	return nil
}

func RunRigS(t *testing.T, plan *Plan) {
	var sc *SScript
	if len(plan.Script) > 0 {
		sc = &SScript{}
		if err := json.Unmarshal(plan.Script, sc); err != nil {
			HarnessFail(plan, "bad script: %v", err)
		}
	} else {
		sc = GenS(NewRng(plan.Seed), plan.Prop, plan.Variant, plan.Tier)
		b, _ := json.Marshal(sc)
		plan.Script = b
	}
	if sc.Knobs.PChMode < 0 || sc.Knobs.PChMode >= len(pchNumbering) {
		sc.Knobs.PChMode = 0
	}
	pchMode = sc.Knobs.PChMode
	if msg := validateS(sc); msg != "" {
		res := &Result{Status: "invalid_script", Harness: msg, Plan: plan}
		WriteResult(res)
		os.Exit(0)
	}
	stdoutFile := ""
	if sc.Knobs.LogDebug {
		cdclog.SetLevel(zapcore.DebugLevel)
		stdoutFile = plan.StateOut + ".stdout"
		f, err := os.OpenFile(stdoutFile, os.O_CREATE|os.O_WRONLY|os.O_APPEND, 0o644)
		if err != nil {
			HarnessFail(plan, "stdout capture: %v", err)
		}
		if err := syscall.Dup2(int(f.Fd()), 1); err != nil {
			HarnessFail(plan, "dup2: %v", err)
		}
	} else if os.Getenv("VERIF_SVCLOG") != "" {
		cdclog.SetLevel(zapcore.InfoLevel) // debugging aid: the service's own log on stdout
	} else {
		cdclog.SetLevel(zapcore.FatalLevel)
	}
	config.InitCommonConfig(func(c *config.CommonConfig) {
		c.Retry = config.RetrySettings{RetryTimes: sc.Knobs.RetryTimes, InitBackOff: 1, MaxBackOff: 1}
	})
	// task ids chosen by the server (create without task_id) come from a seeded generator
	uuid.SetRand(&rngReader{r: NewRng(plan.Seed ^ 0x7a5c ^ uint64(plan.Incarnation)<<40)})
	synctest.Test(t, func(t *testing.T) {
		s := NewSim(t, plan)
		s.Start = time.Now()
		StartWatchdogOutside(s)
		r := &RigS{s: s, sc: sc, plan: plan, stdoutFile: stdoutFile, collByID: map[int64]*SColl{}}
		for _, c := range sc.Colls {
			r.collByID[c.ID] = c
		}
		r.run()
	})
}

// goid: the id of the calling goroutine (parsed from the stack header; used only to tell retry loops apart).
func goid() int {
	var buf [64]byte
	n := runtime.Stack(buf[:], false)
	id := 0
	fmt.Sscanf(strings.TrimPrefix(string(buf[:n]), "goroutine "), "%d", &id)
	return id
}

type rngReader struct{ r *Rng }

func (x *rngReader) Read(p []byte) (int, error) {
	for i := range p {
		p[i] = byte(x.r.Next() >> 24)
	}
	return len(p), nil
}

func validateS(sc *SScript) string {
	if sc.Knobs.ChannelNum <= 0 || sc.Knobs.ChannelNum > 4 || sc.Knobs.MaxTaskNum <= 0 || len(sc.Targets) != 2 {
		return "bad knobs"
	}
	ids := map[int64]bool{}
	for _, c := range sc.Colls {
		if c == nil || c.Shard < 1 || c.Shard > sc.Knobs.ChannelNum || ids[c.ID] {
			return "bad collection"
		}
		ids[c.ID] = true
	}
	pre := true
	for _, h := range sc.History {
		if h.Pre && !pre {
			return "pre event after a live event"
		}
		pre = h.Pre
		switch h.K {
		case "cat":
			if h.Cat == nil {
				return "cat without write"
			}
			if h.Cat.Coll != 0 && !ids[h.Cat.Coll] {
				return "catalog write of unknown collection"
			}
		case "mq":
			for _, e := range h.Es {
				if e == nil || (e.Coll != 0 && !ids[e.Coll]) || e.Shard >= sc.Knobs.ChannelNum {
					return "mq entry of unknown collection"
				}
			}
		case "op":
			if h.Op == nil {
				return "op without event"
			}
		case "tick":
		default:
			return "unknown history kind"
		}
	}
	for _, o := range sc.Ops {
		if o.K == "create" && o.Spec == nil {
			return "create without spec"
		}
	}
	return ""
}

func (r *RigS) loadState() {
	st := &SState{Faults: map[string]int{}, Tasks: map[string]*SMTask{}, Frozen: map[string]string{}, InFlight: -1,
		Probes: map[string]int{}, Stats: map[string]int{}}
	if r.plan.StateIn != "" {
		b, err := os.ReadFile(r.plan.StateIn)
		if err != nil {
			HarnessFail(r.plan, "state: %v", err)
		}
		dec := json.NewDecoder(strings.NewReader(string(b)))
		dec.UseNumber()
		if err := dec.Decode(st); err != nil {
			HarnessFail(r.plan, "state decode: %v", err)
		}
	} else {
		for k, v := range r.sc.Faults {
			st.Faults[k] = v
		}
		st.Crashes = r.sc.Knobs.Crashes
		st.SDK = []*SDKState{NewSDKState(), NewSDKState()}
		for i, sd := range st.SDK {
			for _, c := range r.sc.Colls {
				if !c.Down {
					continue
				}
				sd.NextID += 3
				co := &SDKColl{DB: c.DB, Name: c.Name, ID: sd.NextID, Parts: map[string]*SDKPart{}}
				for sh := 0; sh < c.Shard; sh++ {
					co.VCh = append(co.VCh, vchan(fmt.Sprintf("tgt%c-dml_%d", 'a'+i, sh), co.ID, sh))
				}
				sd.NextID++
				co.Parts["_default"] = &SDKPart{ID: sd.NextID}
				sd.Colls[c.DB+"/"+c.Name] = co
			}
		}
		st.Logs = map[string][]*REntry{replicateChan: nil}
		for i := 0; i < r.sc.Knobs.ChannelNum; i++ {
			st.Logs[srcPCh(i)] = nil
		}
	}
	if st.Frozen == nil {
		st.Frozen = map[string]string{}
	}
	if st.Ambiguous == nil {
		st.Ambiguous = map[string]bool{}
	}
	if st.Rewritten == nil {
		st.Rewritten = map[string]bool{}
	}
	if st.Domain == nil {
		st.Domain = map[string]int{}
	}
	if st.PosRace == nil {
		st.PosRace = map[string]bool{}
	}
	if st.Overtaken == nil {
		st.Overtaken = map[string][]int64{}
	}
	if st.NoCkptSkipped == nil {
		st.NoCkptSkipped = map[string][]int64{}
	}
	if st.TimeSkipped == nil {
		st.TimeSkipped = map[string][]int64{}
	}
	st.Down = map[int]bool{} // a restart finds the downstream healthy again
	if st.Forwarded == nil {
		st.Forwarded = map[string][][2]int{}
	}
	if st.StaleAck == nil {
		st.StaleAck = map[string]bool{}
	}
	r.delivered = map[string]int{}
	st.BadPack = map[string]bool{}
	if st.Overlap == nil {
		st.Overlap = map[string]bool{}
	}
	if st.RewrittenPos == nil {
		st.RewrittenPos = map[string]bool{}
	}
	r.deletedAt = map[string]int{}
	if st.Tasks == nil {
		st.Tasks = map[string]*SMTask{}
	}
	if st.DropSeenLast == nil {
		st.DropSeenLast = map[string][2]int{}
	}
	if st.DropSeen == nil {
		st.DropSeen = map[string][2]int{}
	}
	if st.DropRecPrev == nil {
		st.DropRecPrev = map[string]bool{}
	}
	if st.DropSkipped == nil {
		st.DropSkipped = map[string]bool{}
	}
	if st.CatDropAt == nil {
		st.CatDropAt = map[string][2]int{}
	}
	if st.PartialBar == nil {
		st.PartialBar = map[string]bool{}
	}
	if st.PubAt == nil {
		st.PubAt = map[string][2]int{}
	}
	if st.FirstReg == nil {
		st.FirstReg = map[string][2]int{}
	}
	for len(st.DDLSeen) < 2 {
		st.DDLSeen = append(st.DDLSeen, 0)
	}
	r.st = st
}

func (r *RigS) build() {
	s, sc, st := r.s, r.sc, r.st
	ctx := context.Background()
	step := func() int { return s.Step }
	r.src = NewSimEtcd("src", r.gate("cat"))
	r.src.Clock = step
	if st.Src != nil {
		r.src.Load(b2s(st.Src))
	} else {
		tsb := make([]byte, 8)
		binary.BigEndian.PutUint64(tsb, uint64((tsBasePhysical+10_000_000)*1_000_000))
		r.src.DirectPut(catTsKey(), string(tsb))
	}
	r.mq = NewSimMQ(s, st.Logs, func(id int64) *RColl {
		c := r.collByID[id]
		if c == nil {
			return nil
		}
		return &RColl{ID: c.ID, Name: c.Name, DB: c.DB, DBID: c.DBID}
	})
	r.mq.Dynamic = true
	r.mq.Plain = map[string]bool{replicateChan: true}
	for i, tgt := range sc.Targets {
		_ = tgt
		w := &SimSDK{State: st.SDK[i], Clock: step, Inc: r.plan.Incarnation, TgtPrefix: fmt.Sprintf("tgt%c-dml", 'a'+i)}
		tgtIdx := i
		w.Note = s.Side
		w.OnReject = func(channel string, names []string) { r.onReject(tgtIdx, channel, names) }
		w.OnAck = func(channel string) {
			r.mu.Lock()
			delete(r.rejCount, fmt.Sprintf("%d/%s/g%d", tgtIdx, channel, goid()))
			r.mu.Unlock()
		}
		w.OnAckData = func(channel string, endSeq int, names []string) { r.onAckData(tgtIdx, channel, endSeq, names) }
		if r.plan.Prop == "C03" {
			w.OpenMax = func(channel string) int {
				shard, max := -1, -1
				if i := strings.LastIndex(channel, "_"); i >= 0 {
					fmt.Sscanf(channel[i+1:], "%d", &shard)
				}
				for _, st := range r.mq.All {
					if st.Shard != shard || st.PCh == replicateChan || st.Closed || r.targetOfStream(st) != tgtIdx {
						continue
					}
					for _, dp := range st.Delivered {
						if dp.EndSeq > max {
							max = dp.EndSeq
						}
					}
				}
				return max
			}
		}
		pfx := fmt.Sprintf("t%c:", 'a'+i)
		w.Gate = func(ctx context.Context, kind, key string) Outcome {
			if r.direct {
				return Outcome{}
			}
			o := s.Park(ctx, kind, pfx+key, nil)
			if kind == "dw" && o.CtxErr == nil {
				// "downstream down": a rejected write stays rejected for the following writes of that downstream (so that the
				// writer's retries are exhausted) until the operator resumes a task or the drain begins
				r.mu.Lock()
				if o.Fault == "dw_down" {
					r.st.Down[tgtIdx] = true
					o.Fault = "dw_err"
				} else if o.Fault == "dw_pack" {
					// this pack (and only this pack) is refused, however often it is retried
					r.st.BadPack[pfx+key] = true
					o.Fault = "dw_err"
				} else if (r.st.Down[tgtIdx] || r.st.BadPack[pfx+key]) && !s.Draining && o.Fault == "" {
					o.Fault = "dw_err"
					s.Stat("fault:dw_err_repeated")
				}
				r.mu.Unlock()
			}
			return o
		}
		r.sdk = append(r.sdk, w)
	}
	if sc.Knobs.Backend == "etcd" {
		r.metaE = NewSimEtcd("meta", r.gate("store"))
		r.metaE.Clock = step
		if st.MetaEtcd != nil {
			r.metaE.Load(b2s(st.MetaEtcd))
		}
		cli := r.metaE.Client(ctx)
		rs := coremeta.NewEtcdReplicateStoreWithClient(cli, sRoot)
		r.fac = store.NewEtcdMetaStoreWithClient(cli, sRoot, rs)
		r.obsFac = r.fac
	} else {
		r.metaQ = NewSimSQL("meta", r.gate("store"))
		db := r.metaQ.Open()
		r.direct = true
		rs, err := store.NewMySQLReplicateStoreWithDB(ctx, db, sRoot)
		if err != nil {
			HarnessFail(r.plan, "mysql replicate store: %v", err)
		}
		f, err := store.NewMySQLMetaStoreWithDB(ctx, db, sRoot, rs)
		if err != nil {
			HarnessFail(r.plan, "mysql store: %v", err)
		}
		// a second handle (own connection pool) for the harness' observations: the service's pool may be exhausted by parked calls
		db2 := r.metaQ.Open()
		rs2, err := store.NewMySQLReplicateStoreWithDB(ctx, db2, sRoot)
		if err != nil {
			HarnessFail(r.plan, "mysql replicate store (observer): %v", err)
		}
		f2, err := store.NewMySQLMetaStoreWithDB(ctx, db2, sRoot, rs2)
		if err != nil {
			HarnessFail(r.plan, "mysql store (observer): %v", err)
		}
		r.obsFac = f2
		r.direct = false
		r.fac = f
		if st.MetaSQL != nil {
			r.metaQ.LoadRows(st.MetaSQL)
		}
	}
	cdcwriter.VerifKafkaStub = true
	// Non-parking observation of the reader's pack pipeline: a pack that a stream goroutine enqueues although the CURRENT
	// registration of that stream has not been given a source pack with that end position stems from an earlier
	// registration (the goroutine outlived the pause of its task).
	lastLocked := map[string]int{}
	reader.VerifNote = func(point, ch string, a uint64, ref any) {
		if p, ok := ref.(*msgstream.MsgPack); ok && point == "pack:locked" && len(p.EndPositions) > 0 {
			r.mu.Lock()
			lastLocked[ch] = MsgIDToSeq(p.EndPositions[0].MsgID)
			if r.plan.Prop == "C03" {
				// the order in which closing ticks are computed under the channel lock (a = the closing tick)
				if r.st.LockOrder == nil {
					r.st.LockOrder = map[string][][4]uint64{}
				}
				r.st.LockOrder[ch] = append(r.st.LockOrder[ch], [4]uint64{uint64(r.plan.Incarnation), a, uint64(MsgIDToSeq(p.EndPositions[0].MsgID)), uint64(r.s.Step)})
			}
			r.mu.Unlock()
		}
		if p, ok := ref.(*msgstream.MsgPack); ok && point == "pack:forward" && len(p.EndPositions) > 0 {
			// the pack leaves its own handler: it travels on another downstream channel than the later packs of its stream
			from := -1
			if len(p.StartPositions) > 0 {
				from = MsgIDToSeq(p.StartPositions[0].MsgID)
			}
			k := fmt.Sprintf("%d|%s", int64(a), ch)
			r.mu.Lock()
			r.st.Forwarded[k] = append(r.st.Forwarded[k], [2]int{from, MsgIDToSeq(p.EndPositions[0].MsgID)})
			r.mu.Unlock()
			r.s.Probe("pack_forwarded")
		}
	}
	reader.VerifYield = func(point, ch string, coll int64) {
		if point == "partition:handler" {
			// the barrier of a partition has just been sized by the handlers that know its collection (hook H16, the id is
			// the partition's): how many shard streams of the collection are registered on this downstream at this moment?
			r.notePartitionBarrier(ch, coll)
			return
		}
		if point != "pack:enqueue" || coll <= 0 {
			return
		}
		r.mu.Lock()
		endSeq, ok := lastLocked[ch]
		r.mu.Unlock()
		if !ok {
			return
		}
		r.noteEnqueue(ch, coll, endSeq)
	}
	if os.Getenv("VERIF_PACKTRACE") != "" {
		// debugging aid (changes the event log): one line per pack the reader computes, with the stream's collection
		baseYield, baseNote := reader.VerifYield, reader.VerifNote
		reader.VerifYield = func(point, ch string, coll int64) {
			baseYield(point, ch, coll)
			if point == "pack:computed" || point == "pack:enqueue" {
				s.logf("    ~ %s ch=%s coll=%d t=%d", point, ch, coll, s.Now().Milliseconds())
			}
		}
		reader.VerifNote = func(point, ch string, a uint64, ref any) {
			baseNote(point, ch, a, ref)
			if p, ok := ref.(*msgstream.MsgPack); ok && point == "pack:locked" {
				seq := -1
				if len(p.EndPositions) > 0 {
					seq = MsgIDToSeq(p.EndPositions[0].MsgID)
				}
				s.logf("    ~ pack:locked ch=%s tick=%d end_seq=%d msgs=%d [%d,%d]", ch, a, seq, len(p.Msgs), p.BeginTs, p.EndTs)
			}
		}
	}
	reader.VerifEventQueueCap = func() int { return sc.Knobs.EventCap }
	server.VerifOrderedPositions = true
	server.VerifEventDiscarded = func(task, typ string, coll, part int64) {
		r.mu.Lock()
		if r.st.Discarded == nil {
			r.st.Discarded = map[string][2]int{}
		}
		r.st.Discarded[fmt.Sprintf("%s|%s|%d|%d", task, typ, coll, part)] = [2]int{r.plan.Incarnation, r.s.Step}
		r.mu.Unlock()
		r.s.Side("event loop discards %s of task %s (collection %d partition %d)", typ, task, coll, part)
		r.s.Probe("S_event_discarded_" + typ)
	}
	doneCalls := map[string]int{}
	reader.VerifHandlerOrder = SeededHandlerOrder(r.plan.Seed, r.plan.Incarnation)
	reader.VerifPreferDone = func(site string) bool {
		// a replayable coin: seed, site and how often the site asked (asked only with the context already cancelled)
		r.mu.Lock()
		n := doneCalls[site]
		doneCalls[site] = n + 1
		r.mu.Unlock()
		h := NewRng(r.plan.Seed ^ uint64(len(site))*0x9E3779B97F4A7C15 ^ uint64(n)<<32 ^ uint64(r.plan.Incarnation)<<48)
		for _, c := range site {
			h = NewRng(h.Next() ^ uint64(c))
		}
		prefer := h.Intn(4) != 0 // 3 in 4: stop at once; 1 in 4: leave the choice to the select (consume pending data first)
		if r.sc.Knobs.DoneMode == 1 {
			prefer = true
		}
		r.s.Side("ctx-done at %s #%d: prefer done=%v", site, n, prefer)
		return prefer
	}
	reader.VerifEtcdClient = func(cfg config.EtcdServerConfig) *clientv3.Client { return r.src.Client(ctx) }
	reader.VerifDispatcherClient = func(mqConfig config.MQConfig, tt bool) msgdispatcher.Client {
		r.mu.Lock()
		defer r.mu.Unlock()
		r.nClients++
		return r.mq.NewClient(fmt.Sprintf("c%02d", r.nClients-1))
	}
	util.VerifMilvusClient = func(ctx context.Context, address, token, database string) client.Client {
		for i, tgt := range sc.Targets {
			if tgt == address {
				return r.sdk[i].Client(database)
			}
		}
		return r.sdk[0].Client(database)
	}
	installRangeOrder(sc.Knobs.RangeMode)
	cfg := &server.CDCServerConfig{
		Address:    "sim:8444",
		MaxTaskNum: sc.Knobs.MaxTaskNum,
		MetaStoreConfig: server.CDCMetaStoreConfig{StoreType: sc.Knobs.Backend, RootPath: sRoot,
			Etcd: config.EtcdServerConfig{Address: []string{"meta:2379"}}},
		SourceConfig: server.MilvusSourceConfig{
			Etcd:        config.EtcdServerConfig{Address: []string{"sim:2379"}, RootPath: catRoot, MetaSubPath: "meta"},
			ReadChanLen: 256, ChannelNum: sc.Knobs.ChannelNum, TimeTickInterval: sc.Knobs.TTMs,
			DefaultPartitionName: "_default", ReplicateChan: replicateChan,
			Pulsar: config.PulsarConfig{Address: "pulsar://sim:6650"},
		},
		Retry:       config.RetrySettings{RetryTimes: sc.Knobs.RetryTimes, InitBackOff: 1, MaxBackOff: 1},
		ReplicateID: "cdc-sim",
		Packer:      msgpacker.PackerConfig{TimerInterval: sc.Knobs.PackTimerMs, MaxCount: sc.Knobs.PackCount, MemoryLimit: sc.Knobs.PackMemKB},
	}
	r.cdc = server.NewMetaCDCForVerif(cfg, r.fac, &simFactoryCreator{mq: r.mq, connErr: r.mqConnErr})
	r.handler = server.NewCDCHandlerForVerif(r.cdc, cfg)
}

// obs runs f with every seam in pass-through mode (the scheduler observing through public APIs).
func (r *RigS) obs(f func()) {
	r.direct = true
	defer func() { r.direct = false }()
	f()
}

func (r *RigS) applyHistory(h *HEvent) {
	switch h.K {
	case "cat":
		w := *h.Cat
		if h.Fresh {
			for i := 0; i < w.Shard; i++ {
				w.StartSeq = append(w.StartSeq, r.mq.LastSeq(srcPCh(i)))
			}
		}
		w.Apply(r.src)
		if w.What == "part" && w.State == int(pb.PartitionState_PartitionDropping) {
			if _, have := r.st.CatDropAt[fmt.Sprintf("p%d", w.Part)]; !have {
				r.st.CatDropAt[fmt.Sprintf("p%d", w.Part)] = [2]int{r.plan.Incarnation, r.s.Step}
			}
		}
		if w.What == "coll" && w.State == int(pb.CollectionState_CollectionDropping) {
			if _, have := r.st.CatDropAt[fmt.Sprint(w.Coll)]; !have {
				r.st.CatDropAt[fmt.Sprint(w.Coll)] = [2]int{r.plan.Incarnation, r.s.Step}
			}
		}
		r.s.Side("catalog write %s coll=%d state=%d", w.What, w.Coll, w.State)
	case "mq":
		es := make([]*REntry, len(h.Es))
		for i, e := range h.Es {
			c := *e
			es[i] = &c
		}
		r.mq.Append(h.PCh, es...)
		for _, e := range es {
			if e.Kind == "dropp" {
				if _, have := r.st.PubAt[fmt.Sprintf("p%d", e.Part)]; !have {
					r.st.PubAt[fmt.Sprintf("p%d", e.Part)] = [2]int{r.plan.Incarnation, r.s.Step}
				}
			}
		}
		r.s.Side("published %d message(s) on %s", len(es), h.PCh)
	case "tick":
		for i := 0; i < r.sc.Knobs.ChannelNum; i++ {
			r.mq.Append(srcPCh(i), &REntry{Ts: h.Ts, Kind: "tick"})
		}
		r.s.Side("tick %d", h.Ts)
	case "op":
		r.mq.Append(replicateChan, &REntry{Ts: h.Ts, Kind: "op", Op: h.Op})
		r.s.Side("op message %s", h.Op.Kind)
	}
}

func (r *RigS) body(op *SOp) string {
	if op.K == "raw" {
		return op.Body
	}
	data := map[string]any{}
	switch op.K {
	case "create":
		sp := op.Spec
		if sp.Kafka {
			kp := map[string]any{"address": kafkaAddr, "topic": "cdc-topic"}
			if sp.Creds != "none" {
				kp["enable_sasl"] = true
				kp["sasl"] = map[string]any{"username": canaryKUser, "password": canaryKPass, "mechanisms": "PLAIN", "security_protocol": "SASL_SSL"}
			}
			data["kafka_connect_param"] = kp
		} else {
			mp := map[string]any{"uri": r.sc.Targets[sp.Target%2], "connect_timeout": 10, "channel_num": r.sc.Knobs.ChannelNum}
			switch sp.Creds {
			case "token":
				mp["token"] = canaryToken
			case "userpass":
				mp["username"] = canaryUser
				mp["password"] = canaryPass
			}
			data["milvus_connect_param"] = mp
		}
		switch {
		case sp.Stray == "sasl" && !sp.Kafka:
			data["kafka_connect_param"] = map[string]any{"enable_sasl": true, "sasl": map[string]any{"username": canaryKUser, "password": canaryKPass, "mechanisms": "PLAIN", "security_protocol": "SASL_SSL"}}
		case sp.Stray == "milvus" && sp.Kafka:
			data["milvus_connect_param"] = map[string]any{"username": canaryUser, "password": canaryPass, "token": canaryToken}
		case sp.Stray == "both" && sp.Kafka:
			data["milvus_connect_param"] = map[string]any{"uri": r.sc.Targets[sp.Target%2], "connect_timeout": 10, "username": canaryUser, "password": canaryPass, "token": canaryToken}
		case sp.Stray == "both" && !sp.Kafka:
			data["kafka_connect_param"] = map[string]any{"address": kafkaAddr, "topic": "cdc-topic", "enable_sasl": true, "sasl": map[string]any{"username": canaryKUser, "password": canaryKPass, "mechanisms": "PLAIN", "security_protocol": "SASL_SSL"}}
		}
		ci := map[string]any{"name": sp.Coll}
		if sp.UseStart {
			ci["use_start_position"] = true
		}
		if sp.DB == "" {
			data["collection_infos"] = []any{ci}
		} else {
			data["db_collections"] = map[string]any{sp.DB: []any{ci}}
		}
		if sp.UserRole {
			data["extra_info"] = map[string]any{"enable_user_role": true}
		}
		if sp.MapDB != "" {
			sdb := sp.DB
			if sdb == "" {
				sdb = "default"
			}
			if sp.MapSrcDB != "" {
				sdb = sp.MapSrcDB
			}
			nm := map[string]any{"source_db": sdb, "target_db": sp.MapDB}
			if len(sp.MapColl) > 0 {
				nm["collection_mapping"] = sp.MapColl
			}
			data["name_mapping"] = []any{nm}
		}
		if sp.NoAuto {
			data["disable_auto_start"] = true
		}
		data["task_id"] = op.Task
	case "list":
	default:
		data["task_id"] = op.Task
	}
	b, _ := json.Marshal(map[string]any{"request_type": op.K, "request_data": data})
	return string(b)
}

func (r *RigS) startOp(idx int) {
	op := &r.sc.Ops[idx]
	r.takeBefore()
	r.opBusy = true
	r.opFaults = 0
	r.opWrites = 0
	if op.Task != "" {
		for _, c := range r.s.Parked() {
			if c.Kind == "store" && (strings.HasSuffix(c.Key, "task_info/"+op.Task) || strings.Contains(c.Key, "task_info/"+op.Task+"#") || strings.Contains(c.Key, "task_info/"+op.Task+",")) {
				// somebody is in the middle of a read-modify-write of this task's record
				r.st.Overlap[op.Task] = true
				r.s.Probe("background_transition_overlaps_request")
			}
		}
	}
	r.st.InFlight = idx
	body := r.body(op)
	method := op.Method
	if method == "" {
		method = "POST"
	}
	if op.K == "resume" {
		r.mu.Lock()
		r.st.Down = map[int]bool{}
		r.st.BadPack = map[string]bool{}
		r.mu.Unlock()
	}
	r.s.Side("operator request %d %s %s", idx, op.K, op.Task)
	issued := r.s.Step
	go func() {
		rec := httptest.NewRecorder()
		req, _ := http.NewRequest(method, "/cdc", strings.NewReader(body))
		r.handler.ServeHTTP(rec, req)
		out := &SOpRec{Idx: idx, K: op.K, Task: op.Task, Inc: r.plan.Incarnation, Issued: issued}
		raw := rec.Body.String()
		var resp struct {
			Code    *int           `json:"code"`
			Message string         `json:"message"`
			Data    map[string]any `json:"data"`
		}
		if err := json.Unmarshal([]byte(raw), &resp); err != nil || resp.Code == nil {
			out.Code = -1
			out.Msg = "unparsable response: " + trunc(raw, 200)
		} else {
			out.Code = *resp.Code
			out.Msg = trunc(resp.Message, 300)
		}
		if c := secretIn(raw); c != "" {
			r.s.Violate("C18", "secret_in_response", "response to %s request %d contains the %s: %s", op.K, idx, c, trunc(raw, 300))
		}
		r.mu.Lock()
		r.opDone = out
		r.mu.Unlock()
	}()
}

// noteStoreWrite watches for a task record being written again after its deletion (a state update racing the delete).
func (r *RigS) noteStoreWrite(key string) {
	id := ""
	if i := strings.Index(key, "task_info/"); i >= 0 {
		id = key[i+len("task_info/"):]
		if j := strings.IndexAny(id, ",# "); j >= 0 {
			id = id[:j]
		}
	}
	if i := strings.Index(key, "task_position/"); i >= 0 && (strings.Contains(key, ":put:") || strings.Contains(key, "exec:INSERT INTO task_position:")) {
		pid := key[i+len("task_position/"):]
		if j := strings.IndexAny(pid, "/,# "); j >= 0 {
			pid = pid[:j]
		}
		if _, ok := r.deletedAt[pid]; ok {
			creating := r.opBusy && r.st.InFlight >= 0 && r.sc.Ops[r.st.InFlight].Task == pid && (r.sc.Ops[r.st.InFlight].K == "create" || r.sc.Ops[r.st.InFlight].K == "raw")
			if !creating {
				r.st.RewrittenPos[pid] = true
				r.s.Probe("checkpoint_rewritten_after_delete")
			}
		}
	}
	if id != "" && (strings.Contains(key, ":put:") || strings.Contains(key, "exec:INSERT INTO task_info:")) && !(r.opBusy && r.st.InFlight >= 0 && r.sc.Ops[r.st.InFlight].Task == id) {
		// the record of a task is written while no request on that task is in flight: a transition the service makes on
		// its own (a pause triggered by a failure)
		if r.bgWriteStep == nil {
			r.bgWriteStep = map[string]int{}
		}
		r.bgWriteStep[id] = r.s.Step
	}
	if id != "" && (strings.Contains(key, ":put:") || strings.Contains(key, "exec:INSERT INTO task_info:")) && r.opBusy && r.st.InFlight >= 0 && r.sc.Ops[r.st.InFlight].Task == id {
		// the request's own writes: create 2 (record, state), pause / resume 1; anything beyond that is a background
		// transition (a pause triggered by a failure) of the same task running concurrently with the request
		r.opWrites++
		limit := 1
		if k := r.sc.Ops[r.st.InFlight].K; k == "create" || k == "raw" {
			limit = 2
		}
		if r.opWrites > limit {
			r.st.Overlap[id] = true
			r.s.Probe("background_transition_overlaps_request")
		}
	}
	switch {
	case strings.Contains(key, ":txn:") && id != "", strings.Contains(key, "exec:DELETE FROM task_info:"):
		if id == "" {
			id = key[strings.LastIndex(key, ":")+1:]
		}
		r.deletedAt[id] = r.s.Step
	case (strings.Contains(key, ":put:") || strings.Contains(key, "exec:INSERT INTO task_info:")) && id != "":
		if _, ok := r.deletedAt[id]; ok {
			creating := r.opBusy && r.st.InFlight >= 0 && r.sc.Ops[r.st.InFlight].Task == id && (r.sc.Ops[r.st.InFlight].K == "create" || r.sc.Ops[r.st.InFlight].K == "raw")
			if !creating {
				r.st.Rewritten[id] = true
				r.s.Probe("record_rewritten_after_delete")
			} else {
				delete(r.deletedAt, id)
			}
		}
	}
}

// noteOverlap: the record of another task is being rewritten (a pause triggered by a failure - whether or not the store
// accepts the write) while a request is in flight: the two transitions share the per-downstream resources and are not serialised.
func (r *RigS) noteOverlap(key string) {
	// (the single-record read that opens the read-modify-write of a state update counts too: it may fail, and the
	// transition then happens in memory only)
	i := strings.LastIndex(key, "task_info")
	if i < 0 || i+len("task_info")+1 > len(key) || !(strings.Contains(key, ":put:") || strings.Contains(key, "exec:INSERT INTO task_info:") || strings.Contains(key, ":get:") || strings.Contains(key, "query:")) {
		return
	}
	id := key[i+len("task_info")+1:]
	if j := strings.IndexAny(id, ",# /"); j >= 0 {
		id = id[:j]
	}
	if id != "" && r.opBusy && r.st.InFlight >= 0 && r.sc.Ops[r.st.InFlight].Task != id && r.sc.Ops[r.st.InFlight].Task != "" {
		r.st.Overlap[id] = true
		r.st.Overlap[r.sc.Ops[r.st.InFlight].Task] = true
		r.s.Probe("background_transition_overlaps_request")
	}
	if id != "" && r.isReloaded() && !(r.opBusy && r.st.InFlight >= 0 && r.sc.Ops[r.st.InFlight].Task == id) {
		// the service touches the record of a task on its own (a pause after a failure, persisted or not): the loops of that
		// task's downstream that met the failure return (KF bystander-of-failed-task)
		if t := r.st.Tasks[id]; t != nil && t.Spec != nil && t.Spec.tgt() >= 0 {
			if r.bgTouched == nil {
				r.bgTouched = map[int]bool{}
			}
			r.bgTouched[t.Spec.tgt()] = true
		}
	}
	startedByReload := false
	for _, st := range r.mq.All {
		if st.PCh == replicateChan && st.VCh == replicateChan+"_"+id+"v0" {
			startedByReload = true
		}
	}
	if id != "" && !r.isReloaded() && startedByReload {
		// the start-up reload is the request in flight: it starts the stored tasks one after the other, and a task it has
		// already started stops itself (a failure) while the reload is starting the next ones on the same downstream
		if t := r.st.Tasks[id]; t != nil && t.Spec != nil {
			for id2, t2 := range r.st.Tasks {
				if t2.Spec != nil && t2.Spec.tgt() == t.Spec.tgt() {
					r.st.Overlap[id2] = true
				}
			}
			r.s.Probe("background_transition_overlaps_reload")
		}
	}
}

// notePositionRMW watches the read-modify-write cycles on checkpoint records: two cycles on one record that overlap
// (read, read, write, write) lose the first write.
func (r *RigS) notePositionRMW(key string) {
	i := strings.LastIndex(key, "task_position")
	if i < 0 {
		return
	}
	isGet := strings.Contains(key, ":get:") || strings.Contains(key, "query:")
	isPut := strings.Contains(key, ":put:") || strings.Contains(key, "exec:INSERT INTO task_position:")
	rest := key[i+len("task_position"):]
	rest = strings.TrimLeft(rest, ":/")
	if j := strings.IndexAny(rest, "#, "); j >= 0 {
		rest = rest[:j]
	}
	f := strings.Split(strings.Trim(rest, "/"), "/")
	if len(f) != 2 {
		return // not a single (task, collection) record
	}
	k := f[0] + "/" + f[1]
	if r.rmwOpen == nil {
		r.rmwOpen = map[string]int{}
	}
	switch {
	case isGet:
		r.rmwOpen[k]++
	case isPut:
		if r.rmwOpen[k] >= 2 {
			r.st.PosRace[k] = true
			r.s.Probe("concurrent_checkpoint_updates")
		}
		if r.rmwOpen[k] > 0 {
			r.rmwOpen[k]--
		}
	}
}

// onReject: a downstream write was rejected (injected). The packs of one call belong to one task; it is found through
// the collections the rejected messages belong to.
func (r *RigS) onReject(tgt int, channel string, names []string) {
	// only a rejection that outlasts the writer's retries is a failure of the write
	r.mu.Lock()
	if r.rejCount == nil {
		r.rejCount = map[string]int{}
	}
	// (counted per calling goroutine: the attempts of one write are made by one goroutine, and after a pause / resume the
	// write loop of the earlier replication entity may still be retrying beside the new one)
	k := fmt.Sprintf("%d/%s/g%d", tgt, channel, goid())
	r.rejCount[k]++
	n := r.rejCount[k]
	r.mu.Unlock()
	if n != r.sc.Knobs.RetryTimes {
		return
	}
	seen := map[string]bool{}
	for _, n := range names {
		for _, c := range r.sc.Colls {
			if c.Name != n {
				continue
			}
			if owner := r.ownerOf(tgt, c.ID); owner != "" && !seen[owner] {
				seen[owner] = true
				r.st.Rejected = append(r.st.Rejected, SRejRec{Task: owner, Inc: r.plan.Incarnation, Step: r.s.Step})
				r.s.Side("rejected write on %s carried data of task %s", channel, owner)
			}
		}
	}
}

// onAckData: the downstream acknowledged a pack with data. If the current registration of the stream it belongs to has not
// been given a pack with that end message id yet, the pack stems from an earlier registration (it waited in a queue of the
// shared replication entity across a pause / resume of its task).
func (r *RigS) onAckData(tgt int, channel string, endSeq int, names []string) {
	shard := -1
	if i := strings.LastIndex(channel, "_"); i >= 0 {
		fmt.Sscanf(channel[i+1:], "%d", &shard)
	}
	for _, n := range names {
		for _, c := range r.sc.Colls {
			if c.Name != n || shard < 0 {
				continue
			}
			k := fmt.Sprintf("%d|%d|%d", tgt, c.ID, shard)
			// the registration that handed this pack out last: if it has been closed meanwhile, the pack outlived it
			all := r.mq.All
			for i := len(all) - 1; i >= 0; i-- {
				st := all[i]
				if st.Coll != c.ID || st.Shard != shard || st.PCh == replicateChan || r.targetOfStream(st) != tgt {
					continue
				}
				gave, gaveStep := false, 0
				for _, dp := range st.Delivered {
					if dp.EndSeq == endSeq {
						gave, gaveStep = true, dp.Step
					}
				}
				if !gave {
					continue
				}
				if !st.Closed {
					// the current registration handed a pack with this end id out as well. Writes of one channel are made in
					// order: if an EARLIER data pack of the current registration is still unacknowledged, the pack acknowledged
					// now is not the current registration's - it is the copy an earlier registration had computed
					earlierUnacked := false
					for _, dp := range st.Delivered {
						if dp.EndSeq >= endSeq {
							break
						}
						for _, e := range dp.Entries {
							if (e.Kind == "ins" || e.Kind == "del") && e.Coll == c.ID && e.Shard == shard && !r.ackedLocked(tgt, e.Tag) {
								earlierUnacked = true
							}
						}
					}
					if earlierUnacked {
						continue // look at the registrations before this one
					}
				}
				// ... and its task was resumed in between (a write that merely follows a pause is not this case)
				resumed := false
				owner := r.ownerOf(tgt, c.ID)
				for _, rec := range r.st.OpLog {
					if rec.K == "resume" && rec.Task == owner && rec.Inc == r.plan.Incarnation && rec.Issued >= gaveStep {
						resumed = true
					}
				}
				if r.opBusy && r.st.InFlight >= 0 && r.sc.Ops[r.st.InFlight].K == "resume" && r.sc.Ops[r.st.InFlight].Task == owner {
					resumed = true
				}
				if st.Closed && resumed {
					r.mu.Lock()
					r.st.StaleAck[k] = true
					r.mu.Unlock()
					r.s.Probe("stale_pack_acknowledged_after_stop")
				}
				break
			}
		}
	}
}

// notePartitionBarrier: see the hook in build().
func (r *RigS) notePartitionBarrier(ch string, pid int64) {
	tgt := -1
	for i := range r.sdk {
		if strings.HasPrefix(ch, r.sdk[i].TgtPrefix) {
			tgt = i
		}
	}
	if tgt < 0 {
		return
	}
	for _, c := range r.sc.Colls {
		for _, id := range c.Parts {
			if id != pid {
				continue
			}
			n := 0
			for _, st := range r.mq.Streams() {
				if st.Coll == c.ID && st.PCh != replicateChan && !st.Closed && r.targetOfStream(st) == tgt {
					n++
				}
			}
			if n < c.Shard {
				r.mu.Lock()
				r.st.PartialBar[fmt.Sprintf("%d|%d", tgt, pid)] = true
				r.mu.Unlock()
				r.s.Probe("S_partition_barrier_sized_early")
			}
		}
	}
}

func (r *RigS) noteEnqueue(ch string, coll int64, endSeq int) {
	tgt, shard := -1, -1
	for i := range r.sdk {
		if strings.HasPrefix(ch, r.sdk[i].TgtPrefix) {
			tgt = i
		}
	}
	if i := strings.LastIndex(ch, "_"); i >= 0 {
		fmt.Sscanf(ch[i+1:], "%d", &shard)
	}
	if tgt < 0 || shard < 0 {
		return
	}
	max := -1
	for _, st := range r.mq.All {
		if st.Coll != coll || st.Shard != shard || st.PCh == replicateChan || st.Closed || r.targetOfStream(st) != tgt {
			continue
		}
		for _, dp := range st.Delivered {
			if dp.EndSeq > max {
				max = dp.EndSeq
			}
		}
	}
	if max >= endSeq {
		return
	}
	// resumed since? (a pack that merely trails a pause is dropped by the write loop: "not running task")
	owner := r.ownerOf(tgt, coll)
	for _, rec := range r.st.OpLog {
		if rec.K == "resume" && rec.Task == owner && rec.Inc == r.plan.Incarnation {
			r.mu.Lock()
			r.st.StaleAck[fmt.Sprintf("%d|%d|%d", tgt, coll, shard)] = true
			r.mu.Unlock()
			r.s.Probe("stale_pack_enqueued_after_resume")
			return
		}
	}
	if r.opBusy && r.st.InFlight >= 0 && r.sc.Ops[r.st.InFlight].K == "resume" && r.sc.Ops[r.st.InFlight].Task == owner {
		r.mu.Lock()
		r.st.StaleAck[fmt.Sprintf("%d|%d|%d", tgt, coll, shard)] = true
		r.mu.Unlock()
		r.s.Probe("stale_pack_enqueued_after_resume")
	}
}

func (r *RigS) isReloaded() bool { r.mu.Lock(); defer r.mu.Unlock(); return r.reloaded }

func b2s(m map[string][]byte) map[string]string {
	o := make(map[string]string, len(m))
	for k, v := range m {
		o[k] = string(v)
	}
	return o
}

func s2b(m map[string]string) map[string][]byte {
	o := make(map[string][]byte, len(m))
	for k, v := range m {
		o[k] = []byte(v)
	}
	return o
}

func trunc(s string, n int) string {
	if len(s) > n {
		return s[:n] + "..."
	}
	return s
}

func (r *RigS) faultsFor(c *Call) []string {
	switch c.Kind {
	case "store":
		listing := strings.HasSuffix(c.Key, "task_info/") || (strings.Contains(c.Key, "query:SELECT task_info_value FROM task_info") && !strings.Contains(c.Key, ":task_info:"))
		if !r.isReloaded() && strings.Contains(c.Key, "task_info") && (c.Seq == 0 || listing) {
			// the listing ReloadTask starts with: its failure is a start-up failure (panic by design)
			return nil
		}
		if strings.Contains(c.Key, ":get:") || strings.Contains(c.Key, "query:") {
			return []string{"store_err_before"}
		}
		return []string{"store_err_before", "store_err_after"}
	case "dw":
		return []string{"dw_err", "dw_down", "dw_pack"}
	case "ddl":
		return []string{"ddl_reject_before"}
	case "tq":
		return []string{"tq_err"}
	}
	return nil
}

func (r *RigS) saveState(status string) {
	st := r.st
	st.Src = s2b(r.src.Dump())
	if r.metaE != nil {
		st.MetaEtcd = s2b(r.metaE.Dump())
	}
	if r.metaQ != nil {
		st.MetaSQL = r.metaQ.Dump()
	}
	st.Logs = r.mq.Logs
	st.Faults = map[string]int{}
	for k, v := range r.s.FaultBudget {
		st.Faults[k] = v
	}
	st.Steps += r.s.Step
	st.Viol = append([]Violation(nil), r.s.Viol...)
	st.SimSecs += r.s.Now().Seconds()
	for k, v := range r.s.Probes {
		st.Probes[k] = v
	}
	for k, v := range r.s.Stats {
		st.Stats[k] = v
	}
	b, err := json.Marshal(st)
	if err != nil {
		HarnessFail(r.plan, "state encode: %v", err)
	}
	if err := os.WriteFile(r.plan.StateOut, b, 0o644); err != nil {
		HarnessFail(r.plan, "state write: %v", err)
	}
}

func (r *RigS) run() {
	s, sc := r.s, r.sc
	r.loadState()
	st := r.st
	for k, v := range st.Faults {
		s.FaultBudget[k] = v
	}
	for k, v := range st.Probes {
		s.Probes[k] = v
	}
	for k, v := range st.Stats {
		s.Stats[k] = v
	}
	s.Viol = append(s.Viol, st.Viol...)
	r.storeFaultsAtStart = s.Stats["fault:store_err_before"] + s.Stats["fault:store_err_after"]
	r.faultsAtStart = r.faultTotal()
	s.OnRelease = func(c *Call, o Outcome) {
		if o.Fault != "" && r.opBusy {
			r.opFaults++
		}
		if c.Kind == "store" {
			r.noteOverlap(c.Key)
		}
		if c.Kind == "store" && o.Fault == "" {
			r.noteStoreWrite(c.Key)
		}
		if c.Kind == "store" && o.Fault != "store_err_before" {
			r.notePositionRMW(c.Key)
		}
		if o.Fault == "store_err_after" {
			for _, f := range strings.FieldsFunc(c.Key, func(x rune) bool { return x == '/' || x == ',' || x == ':' || x == ' ' }) {
				if strings.HasPrefix(f, "tk") || strings.HasPrefix(f, "raw") {
					r.st.Ambiguous[f] = true
				}
			}
			if r.opBusy && r.st.InFlight >= 0 && r.sc.Ops[r.st.InFlight].Task != "" {
				r.st.Ambiguous[r.sc.Ops[r.st.InFlight].Task] = true
			}
		}
	}
	// a parked call whose caller's deadline passes (the scheduler let simulated time go by) is a slow external party: for
	// the service it is the same as an error before the call was applied, and it counts as an injected fault of that kind
	s.OnCtxDone = func(c *Call) {
		stat := map[string]string{"store": "fault:store_err_before", "tq": "fault:tq_err", "ddl": "fault:ddl_reject_before", "cat": "fault:cat_slow", "reg": "fault:reg_slow"}[c.Kind]
		if stat == "" {
			return
		}
		s.Stat(stat)
		s.Stat("fault:slow_" + c.Kind)
		r.mu.Lock()
		if r.opBusy {
			r.opFaults++
		}
		r.mu.Unlock()
	}
	r.build()
	if r.plan.Incarnation == 0 {
		for st.HistPos < len(sc.History) && sc.History[st.HistPos].Pre {
			r.applyHistory(&sc.History[st.HistPos])
			st.HistPos++
		}
	} else {
		s.Probe("restart")
		if st.InFlight >= 0 {
			op := sc.Ops[st.InFlight]
			st.OpLog = append(st.OpLog, SOpRec{Idx: st.InFlight, K: op.K, Task: op.Task, Code: 0, Lost: true, Inc: r.plan.Incarnation - 1})
			if t := st.Tasks[op.Task]; t != nil {
				t.Fuzzy = true
			} else if op.K == "create" {
				st.Tasks[op.Task] = &SMTask{ID: op.Task, Spec: op.Spec, Fuzzy: true}
			}
			st.OpPos = st.InFlight + 1
			st.InFlight = -1
			s.Probe("crash_during_request")
		}
	}
	go func() {
		r.cdc.ReloadTask()
		r.mu.Lock()
		r.reloaded = true
		r.mu.Unlock()
		s.Side("reload finished")
	}()
	watchers := func() []Action {
		var as []Action
		for _, e := range []*SimEtcd{r.src, r.metaE} {
			if e == nil {
				continue
			}
			for _, w := range e.DeliverableWatchers() {
				w := w
				as = append(as, Action{Key: "watch:" + w.Key(), Weight: 4, Run: func() { n := w.DeliverOne(); s.Side("watch delivered %d event(s) to %s", n, w.Key()) }})
			}
		}
		return as
	}
	streams := func() []Action {
		var as []Action
		for _, stt := range r.mq.Streams() {
			if stt.CanDeliver() {
				stt := stt
				as = append(as, Action{Key: "mq:" + stt.VCh, Weight: 4, Run: func() {
					dp := stt.Deliver()
					if dp != nil {
						s.Side("mq delivered pack to %s end=%d msgs=%d", stt.Key(), dp.EndSeq, len(dp.Entries))
						if stt.PCh != replicateChan {
							if tgt := r.targetOfStream(stt); tgt >= 0 {
								r.mu.Lock()
								r.delivered[fmt.Sprintf("%d|%d|%d", tgt, stt.Coll, stt.Shard)] = dp.EndSeq
								r.mu.Unlock()
								for _, e := range dp.Entries {
									if e.Kind == "dropc" && e.Coll == stt.Coll {
										k := fmt.Sprintf("%d|%d|%d", tgt, stt.Coll, stt.Shard)
										if _, seen := st.DropSeen[k]; !seen {
											st.DropSeen[k] = [2]int{r.plan.Incarnation, s.Step}
										}
										st.DropSeenLast[k] = [2]int{r.plan.Incarnation, s.Step}
									}
									if e.Kind == "dropp" && e.Coll == stt.Coll {
										k := fmt.Sprintf("%d|%d|%d|p%d", tgt, stt.Coll, stt.Shard, e.Part)
										if _, seen := st.DropSeen[k]; !seen {
											st.DropSeen[k] = [2]int{r.plan.Incarnation, s.Step}
										}
										st.DropSeenLast[k] = [2]int{r.plan.Incarnation, s.Step}
									}
								}
							}
						}
					}
				}})
			}
		}
		return as
	}
	isReloaded := r.isReloaded
	wasReloaded := false
	acts := func(drain bool) []Action {
		as := s.ReleaseActions(r.faultsFor)
		as = append(as, watchers()...)
		as = append(as, streams()...)
		if drain {
			return as
		}
		if isReloaded() {
			if st.HistPos < len(sc.History) && (sc.History[st.HistPos].AfterOps == 0 || (st.OpPos >= sc.History[st.HistPos].AfterOps && !r.opBusy && r.atRest(as))) {
				h := &sc.History[st.HistPos]
				as = append(as, Action{Key: fmt.Sprintf("hist:%04d:%s", st.HistPos, h.K), Weight: 3, Run: func() {
					r.applyHistory(h)
					st.HistPos++
				}})
			}
			if !r.opBusy && st.OpPos < len(sc.Ops) {
				idx := st.OpPos
				gate := sc.Ops[idx].Gate
				isOpen, hold := r.gateState(&sc.Ops[idx], as)
				waited := sc.Ops[idx].AfterHist == 0 || st.HistPos >= len(sc.History) || st.HistPos >= st.HistAtOp+sc.Ops[idx].AfterHist
				if waited && (gate == "" || isOpen || st.HistPos >= len(sc.History)) {
					w := 8
					if gate != "" && isOpen {
						w = 60
					}
					as = append(as, Action{Key: fmt.Sprintf("api:%03d:%s", idx, sc.Ops[idx].K), Weight: w, Run: func() {
						if gate != "" && isOpen {
							s.Probe("S_request_in_" + gate)
						}
						if sc.Ops[idx].AfterHist > 0 {
							s.Probe("S_request_after_pause_of_some_length")
						}
						st.OpPos++
						r.startOp(idx)
					}})
				}
				if hold {
					// a slow downstream while the gated request waits for its window: requests are answered late
					for i := range as {
						if strings.HasPrefix(as[i].Key, "rel:ddl|") {
							as[i].Weight = 1
						}
					}
				}
			}
		}
		if st.Crashes > 0 && s.Step > 5 {
			as = append(as, Action{Key: "zcrash", Weight: 1, Run: func() {
				st.Crashes--
				s.Stats["fault:crash"]++
				s.logf("%04d CRASH (incarnation %d ends)", s.Step, r.plan.Incarnation)
				r.afterStep(true)
				if r.plan.Prop == "C04" && isReloaded() {
					// the source goes on while the service is down: the next 0..3 events of the history happen now
					for n := s.Tape.Choose(4); n > 0 && st.HistPos < len(sc.History); n-- {
						h := &sc.History[st.HistPos]
						r.applyHistory(h)
						st.HistPos++
						st.DownEvents++
						for _, e := range h.Es {
							if e.Kind == "dropc" {
								s.Probe("S_dropped_while_down")
							}
						}
						s.logf("%04d (down) hist:%04d:%s", s.Step, st.HistPos-1, h.K)
					}
					s.flushSide()
				}
				r.saveState("crash")
				res := s.Result("crash_continue")
				WriteResult(res)
				os.Exit(0)
			}})
		}
		return as
	}
	idle, lull := 0, 0
	for s.Step < sc.Knobs.MaxSteps {
		s.Settle()
		if !wasReloaded && isReloaded() {
			wasReloaded = true
			r.afterReload()
		}
		r.afterStep(false)
		as := acts(false)
		if len(as) == 0 {
			idle++
			if idle > 40 {
				break
			}
			s.Advance(500 * time.Millisecond)
			continue
		}
		idle = 0
		// only a crash on offer while nothing happens: let it come a few times, then stop
		if len(as) == 1 && as[0].Key == "zcrash" {
			lull++
			if lull > 12 {
				break
			}
		} else {
			lull = 0
		}
		as = append(as, Action{Key: "zclk:0500", Weight: sc.Knobs.ClockW, Run: func() { s.Stats["clock_advance"]++; s.Advance(500 * time.Millisecond) }})
		s.StepOnce(as)
	}
	// drain: no new faults, no new requests; publish the rest of the history so that liveness is judged on a complete run
	s.Draining = true
	drain := func() {
		idle = 0
		extraTicks := 0
		for n := 0; idle < 40 && n < 6000; n++ {
			s.Settle()
			if !wasReloaded && isReloaded() {
				wasReloaded = true
				r.afterReload()
			}
			r.afterStep(false)
			as := acts(true)
			if isReloaded() && st.HistPos < len(sc.History) && !r.opBusy {
				h := &sc.History[st.HistPos]
				as = append(as, Action{Key: fmt.Sprintf("hist:%04d:%s", st.HistPos, h.K), Run: func() { r.applyHistory(h); st.HistPos++ }})
			}
			if len(as) == 0 {
				idle++
				if idle%3 == 0 && extraTicks < 16 && isReloaded() && st.HistPos >= len(sc.History) && !r.opBusy && !r.noDataFlow() {
					// the source keeps ticking: batches buffered by the packer are flushed by its age threshold only when a next pack arrives
					extraTicks++
					var maxTs uint64
					for i := 0; i < sc.Knobs.ChannelNum; i++ {
						if lg := r.mq.Logs[srcPCh(i)]; len(lg) > 0 && lg[len(lg)-1].Ts > maxTs {
							maxTs = lg[len(lg)-1].Ts
						}
					}
					r.applyHistory(&HEvent{K: "tick", Ts: maxTs + (200 << 18)})
					s.logf("%04d drain extra tick %d", s.Step, extraTicks)
					s.Advance(time.Duration(sc.Knobs.PackTimerMs+100) * time.Millisecond)
					continue
				}
				s.Advance(500 * time.Millisecond)
				continue
			}
			idle = 0
			sort.Slice(as, func(i, j int) bool { return as[i].Key < as[j].Key })
			s.logf("%04d drain %s", s.Step, as[0].Key)
			s.Step++
			s.Tick()
			as[0].Run()
		}
		s.Settle()
		r.afterStep(false)
	}
	drain()
	if !wasReloaded {
		s.Violate("C11", "reload_stuck", "ReloadTask did not return")
	}
	if r.opBusy {
		s.Violate("C19", "request_stuck", "request %d (%s) never answered", st.InFlight, sc.Ops[max(st.InFlight, 0)].K)
	}
	r.finalOracles()
	if sc.Knobs.Recover && wasReloaded && !r.opBusy && (r.plan.Prop == "C05" || r.plan.Prop == "C06") {
		r.recoveryPhase(drain)
	}
	r.scanLog()
	st.SimSecs += s.Now().Seconds()
	res := s.Result("ok")
	res.Real = []string{"server.MetaCDC (Create/Pause/Resume/Delete/Get/List/GetPosition, ReloadTask, event and message loops, write callback)",
		"server HTTP handler (decode, dispatch, error mapping)", "server/store meta stores (etcd or MySQL flavour) + store.* operations", "server/msgpacker.Packer",
		"reader.CollectionReader, reader.ChannelReader, reader.EtcdOp, reader.replicateChannelManager, reader.TargetClient",
		"writer.ChannelWriter, writer.MilvusDataHandler, meta.ReplicateMeteImpl", "server/metrics task gauges"}
	res.Stub = []string{"source etcd (SimEtcd)", "metadata etcd / MySQL (SimEtcd / SimSQL behind database/sql)", "Pulsar/Kafka + msgdispatcher (SimMQ)",
		"downstream Milvus behind the Go SDK client interface (SimSDK)", "rootcoord / proxies of the source (history generator)", "HTTP transport (httptest recorder)", "Kafka downstream: not simulated"}
	res.Sample = map[string]any{"ops": sc.Ops[:min(8, len(sc.Ops))], "history_events": len(sc.History), "knobs": sc.Knobs, "op_log": st.OpLog[:min(8, len(st.OpLog))]}
	res.SimMillis = int64(st.SimSecs * 1000)
	WriteResult(res)
	if res.Status == "violation" {
		os.Exit(1)
	}
	os.Exit(0)
}

// atRest: nothing of the service's set-up work is under way (no call to the source catalog, the downstream or the message
// queue registration is parked, no watch event or message is waiting for delivery).
func (r *RigS) atRest(as []Action) bool {
	for _, a := range as {
		for _, p := range []string{"rel:reg|", "rel:tq|", "rel:cat|", "rel:ddl|", "watch:", "mq:"} {
			if strings.HasPrefix(a.Key, p) {
				return false
			}
		}
	}
	return true
}

// gateState tells whether the window a gated request waits for is open, and whether the downstream is to be slow meanwhile
// (the constellation the gate belongs to is under way: the partition's drop message is published, no drop request is out).
func (r *RigS) gateState(op *SOp, as []Action) (open, hold bool) {
	if op.Gate != "pdrop_window" {
		return false, false
	}
	t := r.st.Tasks[op.Task]
	if t == nil || t.Spec == nil {
		return false, false
	}
	tgt := t.Spec.Target
	for _, c := range r.sc.Colls {
		for _, pname := range SortedKeys(c.Parts) {
			pid := c.Parts[pname]
			if _, pub := r.st.PubAt[fmt.Sprintf("p%d", pid)]; !pub {
				continue
			}
			requested := false
			for _, d := range r.st.SDK[tgt].DDL {
				if d.Kind == "dropp" && d.DB == c.DB && d.Coll == c.Name && d.Part == pname {
					requested = true
				}
			}
			if requested {
				continue
			}
			hold = true
			all := true
			for sh := 0; sh < c.Shard; sh++ {
				seen, have := r.st.DropSeen[fmt.Sprintf("%d|%d|%d|p%d", tgt, c.ID, sh, pid)]
				if !have || seen[0] != r.plan.Incarnation {
					all = false
				}
			}
			if all {
				open = true
			}
		}
	}
	if open {
		// ... and the event loop of the downstream is busy with a request while every announcement of the source catalog
		// has been handed to the readers (whatever they produced waits in, or in front of, the event queue)
		busy := false
		for _, a := range as {
			if strings.HasPrefix(a.Key, "rel:ddl|") {
				busy = true
			}
			if strings.HasPrefix(a.Key, "watch:") {
				return false, hold
			}
		}
		open = busy
	}
	return open, hold
}

// ------------------------------------------------------------------ observation helpers

func (r *RigS) storeTasks() (map[string]*meta.TaskInfo, error) {
	var out map[string]*meta.TaskInfo
	var err error
	r.obs(func() {
		ctx := context.Background()
		var infos []*meta.TaskInfo
		infos, err = r.obsFac.GetTaskInfoMetaStore(ctx).Get(ctx, &meta.TaskInfo{}, nil)
		out = map[string]*meta.TaskInfo{}
		for _, i := range infos {
			out[i.TaskID] = i
		}
	})
	return out, err
}

func (r *RigS) storePositions() ([]*meta.TaskCollectionPosition, error) {
	var out []*meta.TaskCollectionPosition
	var err error
	r.obs(func() {
		ctx := context.Background()
		out, err = r.obsFac.GetTaskCollectionPositionMetaStore(ctx).Get(ctx, &meta.TaskCollectionPosition{}, nil)
	})
	sort.Slice(out, func(i, j int) bool {
		if out[i].TaskID != out[j].TaskID {
			return out[i].TaskID < out[j].TaskID
		}
		return out[i].CollectionID < out[j].CollectionID
	})
	return out, err
}

// rawStore is the complete persisted content in canonical form.
func (r *RigS) rawStore() string {
	var b []byte
	if r.metaE != nil {
		b, _ = json.Marshal(r.metaE.Dump())
	} else {
		b, _ = json.Marshal(r.metaQ.Dump())
	}
	return string(b)
}

func (r *RigS) gauges() map[string]string {
	out := map[string]string{}
	i, ru, p := metrics.TaskNumVec.VerifTaskNum()
	for _, t := range i {
		out[t] += "Initial"
	}
	for _, t := range ru {
		out[t] += "Running"
	}
	for _, t := range p {
		out[t] += "Paused"
	}
	return out
}

func canonSnap(sn server.VerifSnapshot) string {
	norm := func(m map[string][]string) map[string][]string {
		o := map[string][]string{}
		for k, v := range m {
			if len(v) > 0 {
				o[k] = v
			}
		}
		return o
	}
	ur := map[string]bool{}
	for k, v := range sn.EnableUserRole {
		if v {
			ur[k] = true
		}
	}
	b, _ := json.Marshal(map[string]any{"names": norm(sn.CollectionNames), "exclude": norm(sn.ExcludeData), "user_role": ur, "tasks": sn.Tasks})
	return string(b)
}

func (r *RigS) quiescent() bool {
	if r.opBusy {
		return false
	}
	return len(r.s.Parked()) == 0
}

func (r *RigS) scanLog() {
	if r.stdoutFile == "" {
		return
	}
	b, err := os.ReadFile(r.stdoutFile)
	if err != nil {
		HarnessFail(r.plan, "read captured log: %v", err)
	}
	r.s.Stats["log_bytes"] += len(b)
	for _, line := range strings.Split(string(b), "\n") {
		if kind := secretIn(line); kind != "" {
			site := logSite(line)
			r.s.Violate("C18", "secret_in_log:"+site, "log line contains the %s: %s", kind, trunc(line, 400))
		}
	}
}

// secretIn names the credential canary found in a text ("" if none).
func secretIn(text string) string {
	for _, c := range [][2]string{{canaryToken, "Milvus token"}, {canaryPass, "Milvus password"}, {canaryKPass, "Kafka SASL password"}, {canaryKUser, "Kafka SASL username"}} {
		if strings.Contains(text, c[0]) {
			return c[1]
		}
	}
	return ""
}

// logSite extracts "file.go:line" and the message of a zap console line.
func logSite(line string) string {
	f := strings.Split(line, "] [")
	if len(f) >= 3 {
		site := strings.TrimSuffix(strings.TrimPrefix(f[2], "["), "]")
		msg := ""
		if len(f) >= 4 {
			msg = strings.SplitN(f[3], "]", 2)[0]
		}
		return site + ":" + msg
	}
	return "unknown"
}
