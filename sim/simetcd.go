package sim

import (
	"context"
	"errors"
	"fmt"
	"sort"
	"strings"
	"sync"

	"go.etcd.io/etcd/api/v3/etcdserverpb"
	"go.etcd.io/etcd/api/v3/mvccpb"
	clientv3 "go.etcd.io/etcd/client/v3"
)

// Gate is how a simulated backend asks the simulator what happens to a call:
// it may park the caller (bubble rigs) or decide at once (sequential rigs).
type Gate func(ctx context.Context, kind, key string) Outcome

type ekv struct {
	value     string
	createRev int64
	modRev    int64
	version   int64
}

// SimEtcd is an in-memory MVCC key-value store exposing the parts of the etcd
// v3 client API the repository uses: Get (key / prefix), Put, Delete (key /
// prefix), Txn().Then().Commit() (atomic), Watch(prefix, WithPrevKV), Status.
type SimEtcd struct {
	Name     string
	mu       sync.Mutex
	rev      int64
	data     map[string]*ekv
	watchers []*SimWatcher
	Gate     Gate
	// History of applied write batches with a logical clock, for oracles
	Writes []EtcdWrite
	Clock  func() int
}

type EtcdWrite struct {
	Step int
	Rev  int64
	Puts map[string]string
	Dels []string
}

func NewSimEtcd(name string, gate Gate) *SimEtcd {
	return &SimEtcd{Name: name, data: map[string]*ekv{}, Gate: gate, rev: 1}
}

func (e *SimEtcd) gate(ctx context.Context, kind, key string) Outcome {
	if e.Gate == nil {
		return Outcome{}
	}
	return e.Gate(ctx, kind, e.Name+":"+key)
}

var ErrSimEtcd = errors.New("sim: etcdserver: request timed out")

// Client returns a *clientv3.Client whose KV, Watcher and Maintenance are this store.
func (e *SimEtcd) Client(ctx context.Context) *clientv3.Client {
	c := clientv3.NewCtxClient(ctx)
	c.KV = e
	c.Watcher = e
	c.Maintenance = &simMaint{}
	return c
}

// ---- direct (harness side) access, never gated

func (e *SimEtcd) Dump() map[string]string {
	e.mu.Lock()
	defer e.mu.Unlock()
	out := make(map[string]string, len(e.data))
	for k, v := range e.data {
		out[k] = v.value
	}
	return out
}

func (e *SimEtcd) Load(m map[string]string) {
	e.mu.Lock()
	defer e.mu.Unlock()
	for k, v := range m {
		e.rev++
		e.data[k] = &ekv{value: v, createRev: e.rev, modRev: e.rev, version: 1}
	}
}

// DirectPut / DirectDelete are used by generators (the source Milvus writing its catalog).
func (e *SimEtcd) DirectPut(key, val string) {
	e.mu.Lock()
	defer e.mu.Unlock()
	e.applyPut(key, val, nil)
}

func (e *SimEtcd) DirectDelete(key string) {
	e.mu.Lock()
	defer e.mu.Unlock()
	e.applyDelete(key, "", nil)
}

func (e *SimEtcd) step() int {
	if e.Clock != nil {
		return e.Clock()
	}
	return 0
}

// ---- mutation primitives (mu held). One call = one revision.

func (e *SimEtcd) applyPut(key, val string, w *EtcdWrite) {
	var evs []*clientv3.Event
	e.rev++
	evs = append(evs, e.putNoRev(key, val))
	if w != nil {
		w.Puts[key] = val
	}
	e.notify(evs)
}

func (e *SimEtcd) putNoRev(key, val string) *clientv3.Event {
	old := e.data[key]
	nk := &ekv{value: val, createRev: e.rev, modRev: e.rev, version: 1}
	ev := &clientv3.Event{Type: mvccpb.PUT}
	if old != nil {
		nk.createRev = old.createRev
		nk.version = old.version + 1
		ev.PrevKv = &mvccpb.KeyValue{Key: []byte(key), Value: []byte(old.value), CreateRevision: old.createRev, ModRevision: old.modRev, Version: old.version}
	}
	e.data[key] = nk
	ev.Kv = &mvccpb.KeyValue{Key: []byte(key), Value: []byte(val), CreateRevision: nk.createRev, ModRevision: nk.modRev, Version: nk.version}
	return ev
}

func (e *SimEtcd) matchKeys(key, end string) []string {
	var ks []string
	for k := range e.data {
		if end == "" {
			if k == key {
				ks = append(ks, k)
			}
		} else if end == "\x00" {
			if k >= key {
				ks = append(ks, k)
			}
		} else if k >= key && k < end {
			ks = append(ks, k)
		}
	}
	sort.Strings(ks)
	return ks
}

func (e *SimEtcd) applyDelete(key, end string, w *EtcdWrite) int64 {
	ks := e.matchKeys(key, end)
	if len(ks) == 0 {
		return 0
	}
	e.rev++
	evs := e.deleteNoRev(ks)
	if w != nil {
		w.Dels = append(w.Dels, ks...)
	}
	e.notify(evs)
	return int64(len(ks))
}

func (e *SimEtcd) deleteNoRev(ks []string) []*clientv3.Event {
	var evs []*clientv3.Event
	for _, k := range ks {
		old := e.data[k]
		delete(e.data, k)
		evs = append(evs, &clientv3.Event{Type: mvccpb.DELETE,
			Kv:     &mvccpb.KeyValue{Key: []byte(k), ModRevision: e.rev},
			PrevKv: &mvccpb.KeyValue{Key: []byte(k), Value: []byte(old.value), CreateRevision: old.createRev, ModRevision: old.modRev, Version: old.version}})
	}
	return evs
}

func (e *SimEtcd) header() *etcdserverpb.ResponseHeader {
	return &etcdserverpb.ResponseHeader{ClusterId: 1, MemberId: 1, Revision: e.rev, RaftTerm: 1}
}

func (e *SimEtcd) rangeLocked(key, end string) *clientv3.GetResponse {
	resp := &clientv3.GetResponse{Header: e.header()}
	for _, k := range e.matchKeys(key, end) {
		v := e.data[k]
		resp.Kvs = append(resp.Kvs, &mvccpb.KeyValue{Key: []byte(k), Value: []byte(v.value), CreateRevision: v.createRev, ModRevision: v.modRev, Version: v.version})
	}
	resp.Count = int64(len(resp.Kvs))
	return resp
}

// ---- clientv3.KV

var _ clientv3.KV = (*SimEtcd)(nil)

func (e *SimEtcd) Put(ctx context.Context, key, val string, opts ...clientv3.OpOption) (*clientv3.PutResponse, error) {
	o := e.gate(ctx, "store", "put:"+key)
	if o.CtxErr != nil {
		return nil, o.CtxErr
	}
	if o.Fault == "store_err_before" {
		return nil, ErrSimEtcd
	}
	e.mu.Lock()
	w := &EtcdWrite{Step: e.step(), Puts: map[string]string{}}
	e.applyPut(key, val, w)
	w.Rev = e.rev
	e.Writes = append(e.Writes, *w)
	h := e.header()
	e.mu.Unlock()
	if o.Fault == "store_err_after" {
		return nil, ErrSimEtcd
	}
	return &clientv3.PutResponse{Header: h}, nil
}

func (e *SimEtcd) Get(ctx context.Context, key string, opts ...clientv3.OpOption) (*clientv3.GetResponse, error) {
	op := clientv3.OpGet(key, opts...)
	o := e.gate(ctx, "store", "get:"+key)
	if o.CtxErr != nil {
		return nil, o.CtxErr
	}
	if o.Fault != "" {
		return nil, ErrSimEtcd
	}
	e.mu.Lock()
	defer e.mu.Unlock()
	return e.rangeLocked(string(op.KeyBytes()), string(op.RangeBytes())), nil
}

func (e *SimEtcd) Delete(ctx context.Context, key string, opts ...clientv3.OpOption) (*clientv3.DeleteResponse, error) {
	op := clientv3.OpDelete(key, opts...)
	o := e.gate(ctx, "store", "del:"+key)
	if o.CtxErr != nil {
		return nil, o.CtxErr
	}
	if o.Fault == "store_err_before" {
		return nil, ErrSimEtcd
	}
	e.mu.Lock()
	w := &EtcdWrite{Step: e.step(), Puts: map[string]string{}}
	n := e.applyDelete(string(op.KeyBytes()), string(op.RangeBytes()), w)
	w.Rev = e.rev
	e.Writes = append(e.Writes, *w)
	h := e.header()
	e.mu.Unlock()
	if o.Fault == "store_err_after" {
		return nil, ErrSimEtcd
	}
	return &clientv3.DeleteResponse{Header: h, Deleted: n}, nil
}

func (e *SimEtcd) Compact(ctx context.Context, rev int64, opts ...clientv3.CompactOption) (*clientv3.CompactResponse, error) {
	return &clientv3.CompactResponse{}, nil
}

func (e *SimEtcd) Do(ctx context.Context, op clientv3.Op) (clientv3.OpResponse, error) {
	return clientv3.OpResponse{}, errors.New("sim: KV.Do is not modelled")
}

func (e *SimEtcd) Txn(ctx context.Context) clientv3.Txn { return &simTxn{e: e, ctx: ctx} }

type simTxn struct {
	e    *SimEtcd
	ctx  context.Context
	cmps []clientv3.Cmp
	then []clientv3.Op
	els  []clientv3.Op
}

func (t *simTxn) If(cs ...clientv3.Cmp) clientv3.Txn   { t.cmps = append(t.cmps, cs...); return t }
func (t *simTxn) Then(ops ...clientv3.Op) clientv3.Txn { t.then = append(t.then, ops...); return t }
func (t *simTxn) Else(ops ...clientv3.Op) clientv3.Txn { t.els = append(t.els, ops...); return t }

// Commit applies all operations atomically at one revision.
func (t *simTxn) Commit() (*clientv3.TxnResponse, error) {
	e := t.e
	if len(t.cmps) != 0 {
		return nil, errors.New("sim: txn compares are not modelled")
	}
	var keys []string
	for _, op := range t.then {
		keys = append(keys, string(op.KeyBytes()))
	}
	o := e.gate(t.ctx, "store", "txn:"+strings.Join(keys, ","))
	if o.CtxErr != nil {
		return nil, o.CtxErr
	}
	if o.Fault == "store_err_before" {
		return nil, ErrSimEtcd
	}
	e.mu.Lock()
	w := &EtcdWrite{Step: e.step(), Puts: map[string]string{}}
	var evs []*clientv3.Event
	bumped := false
	bump := func() {
		if !bumped {
			e.rev++
			bumped = true
		}
	}
	resp := &clientv3.TxnResponse{Succeeded: true}
	for _, op := range t.then {
		switch {
		case op.IsPut():
			bump()
			evs = append(evs, e.putNoRev(string(op.KeyBytes()), string(op.ValueBytes())))
			w.Puts[string(op.KeyBytes())] = string(op.ValueBytes())
		case op.IsDelete():
			ks := e.matchKeys(string(op.KeyBytes()), string(op.RangeBytes()))
			if len(ks) > 0 {
				bump()
				evs = append(evs, e.deleteNoRev(ks)...)
				w.Dels = append(w.Dels, ks...)
			}
		case op.IsGet():
			_ = e.rangeLocked(string(op.KeyBytes()), string(op.RangeBytes()))
		default:
			e.mu.Unlock()
			return nil, errors.New("sim: unsupported txn op")
		}
	}
	w.Rev = e.rev
	e.Writes = append(e.Writes, *w)
	e.notify(evs)
	resp.Header = e.header()
	e.mu.Unlock()
	if o.Fault == "store_err_after" {
		return nil, ErrSimEtcd
	}
	return resp, nil
}

// ---- clientv3.Watcher

type SimWatcher struct {
	e       *SimEtcd
	ID      int
	key     string
	end     string
	prevKV  bool
	ch      chan clientv3.WatchResponse
	pending []*clientv3.Event
	ctx     context.Context
	closed  bool
}

var _ clientv3.Watcher = (*SimEtcd)(nil)

func (e *SimEtcd) Watch(ctx context.Context, key string, opts ...clientv3.OpOption) clientv3.WatchChan {
	op := clientv3.OpGet(key, opts...)
	e.mu.Lock()
	defer e.mu.Unlock()
	w := &SimWatcher{e: e, ID: len(e.watchers), key: string(op.KeyBytes()), end: string(op.RangeBytes()), prevKV: true, ch: make(chan clientv3.WatchResponse, 1), ctx: ctx}
	e.watchers = append(e.watchers, w)
	return w.ch
}

func (e *SimEtcd) RequestProgress(ctx context.Context) error { return nil }
func (e *SimEtcd) Close() error                              { return nil }

func (e *SimEtcd) notify(evs []*clientv3.Event) {
	for _, w := range e.watchers {
		if w.closed {
			continue
		}
		for _, ev := range evs {
			k := string(ev.Kv.Key)
			if (w.end == "" && k == w.key) || (w.end != "" && k >= w.key && (w.end == "\x00" || k < w.end)) {
				w.pending = append(w.pending, ev)
			}
		}
	}
}

// Watchers with undelivered events whose hand-off slot is free.
func (e *SimEtcd) DeliverableWatchers() []*SimWatcher {
	e.mu.Lock()
	defer e.mu.Unlock()
	var out []*SimWatcher
	for _, w := range e.watchers {
		if !w.closed && len(w.pending) > 0 && len(w.ch) == 0 {
			if w.ctx != nil && w.ctx.Err() != nil {
				w.closed = true
				close(w.ch)
				continue
			}
			out = append(out, w)
		}
	}
	return out
}

// DeliverOne hands the events of the oldest pending revision to the watcher.
func (w *SimWatcher) DeliverOne() int {
	e := w.e
	e.mu.Lock()
	defer e.mu.Unlock()
	if len(w.pending) == 0 {
		return 0
	}
	rev := w.pending[0].Kv.ModRevision
	var batch []*clientv3.Event
	for len(w.pending) > 0 && w.pending[0].Kv.ModRevision == rev {
		batch = append(batch, w.pending[0])
		w.pending = w.pending[1:]
	}
	w.ch <- clientv3.WatchResponse{Header: *e.header(), Events: batch}
	return len(batch)
}

func (w *SimWatcher) Key() string { return fmt.Sprintf("%s#%d:%s", w.e.Name, w.ID, w.key) }

// ---- Maintenance (Status only)

type simMaint struct{ clientv3.Maintenance }

func (m *simMaint) Status(ctx context.Context, endpoint string) (*clientv3.StatusResponse, error) {
	return &clientv3.StatusResponse{Version: "3.5.5"}, nil
}
