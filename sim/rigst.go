package sim

import (
	"context"
	"encoding/json"
	"fmt"
	"os"
	"reflect"
	"sort"
	"strings"
	"testing"
	"time"

	"github.com/milvus-io/milvus-proto/go-api/v2/commonpb"
	"go.uber.org/zap/zapcore"

	coreapi "github.com/zilliztech/milvus-cdc/core/api"
	cdclog "github.com/zilliztech/milvus-cdc/core/log"
	coremeta "github.com/zilliztech/milvus-cdc/core/meta"
	serverapi "github.com/zilliztech/milvus-cdc/server/api"
	"github.com/zilliztech/milvus-cdc/server/model/meta"
	"github.com/zilliztech/milvus-cdc/server/store"
)

// ------------------------------------------------------------------ rig ST: metadata stores (C12) and drop-message meta (C17)

type STOp struct {
	K      string   `json:"k"`
	Root   int      `json:"r"`
	Task   string   `json:"t,omitempty"`
	Coll   int64    `json:"c,omitempty"`
	PCh    string   `json:"p,omitempty"`
	Val    int64    `json:"v,omitempty"`
	State  int      `json:"s,omitempty"`
	Olds   []int    `json:"olds,omitempty"`
	Which  string   `json:"w,omitempty"` // pos | op | target (which checkpoint map an update addresses)
	Msg    string   `json:"m,omitempty"`
	Shard  string   `json:"sh,omitempty"`
	Shards []string `json:"shs,omitempty"`
	Kind   string   `json:"kind,omitempty"` // coll | part
}

type STScript struct {
	Backend string   `json:"backend"`
	Roots   []string `json:"roots"`
	Ops     []STOp   `json:"ops"`
	Faults  int      `json:"faults"`
}

func GenST(rng *Rng, prop, variant string) *STScript {
	sc := &STScript{Backend: variant}
	if sc.Backend == "" {
		sc.Backend = Pick(rng, []string{"etcd", "mysql"})
	}
	if prop == "C17" {
		return genC17(rng, sc)
	}
	rootPools := [][]string{{"cdc_a", "cdcxa"}, {"by-dev", "by_dev", "by-dev2"}, {"r", "r/x"}, {"p%", "pq", "p"}, {"cdc", "cdc-meta"}}
	sc.Roots = Pick(rng, rootPools)
	if sc.Backend == "mysql" && rng.Pct(60) {
		// the two known MySQL findings (root path in a LIKE pattern, deletes not scoped by root) need several roots or
		// pattern characters in the root; most MySQL histories run on one plain root so that they are not cut short by them
		sc.Roots = []string{Pick(rng, []string{"cdc", "r/x", "by-dev", "cdc-meta"})}
	}
	tasks := Pick(rng, [][]string{{"t1", "t11", "t1_", "tx"}, {"a%", "ab", "a"}, {"task_1", "taskx1", "task"}, {"u1", "u2", "u12"}})
	// (-1 and -10 are the ids under which the service itself stores the start positions of a create request and the
	// checkpoint of the operation channel)
	colls := Pick(rng, [][]int64{{44, 441, 4499, 45}, {7, 70, 71}, {100, 1001, 10}, {-10, 10, 100, -1}, {-1, 1, 11}})
	pchs := []string{"dml_0", "dml_1", "dml_10"}
	n := rng.Range(6, 22)
	val := int64(1000)
	for i := 0; i < n; i++ {
		op := STOp{Root: rng.Intn(len(sc.Roots)), Task: Pick(rng, tasks), Coll: Pick(rng, colls), PCh: Pick(rng, pchs)}
		val++
		op.Val = val
		switch r := rng.Intn(100); {
		case r < 18:
			op.K = "put_task"
			op.State = rng.Intn(3)
		case r < 30:
			op.K = "upd_state"
			op.State = rng.Intn(3)
			if rng.Pct(70) {
				op.Olds = []int{rng.Intn(3)}
				if rng.Pct(40) {
					op.Olds = append(op.Olds, rng.Intn(3))
				}
			}
		case r < 62:
			op.K = "upd_pos"
			op.Which = Pick(rng, []string{"pos", "pos", "pos", "op", "target", "all"})
		case r < 72:
			op.K = "mark_dropped"
		case r < 80:
			op.K = "del_pos"
		case r < 90:
			op.K = "del_task"
		default:
			op.K = "rs_" + Pick(rng, []string{"put", "put", "remove"})
			op.Msg = Pick(rng, []string{"m1", "m11", "m_"})
		}
		sc.Ops = append(sc.Ops, op)
	}
	if rng.Pct(35) {
		// directed tail: a task with checkpoints of two collections is deleted (the only multi-record transaction)
		t, r := Pick(rng, tasks), rng.Intn(len(sc.Roots))
		val++
		sc.Ops = append(sc.Ops, STOp{K: "put_task", Root: r, Task: t, State: 1, Val: val, Coll: colls[0], PCh: pchs[0]})
		for _, c := range colls[:2] {
			val++
			sc.Ops = append(sc.Ops, STOp{K: "upd_pos", Root: r, Task: t, Coll: c, PCh: Pick(rng, pchs), Val: val, Which: "pos"})
		}
		val++
		sc.Ops = append(sc.Ops, STOp{K: "del_task", Root: r, Task: t, Val: val, Coll: colls[0], PCh: pchs[0]})
	}
	if rng.Pct(25) {
		// directed tail: a checkpoint record with all three maps is marked dropped, then late updates arrive for it
		t, r, c, pc := Pick(rng, tasks), rng.Intn(len(sc.Roots)), Pick(rng, colls), Pick(rng, pchs)
		val++
		sc.Ops = append(sc.Ops, STOp{K: "upd_pos", Root: r, Task: t, Coll: c, PCh: pc, Val: val, Which: "all"})
		val++
		sc.Ops = append(sc.Ops, STOp{K: "mark_dropped", Root: r, Task: t, Coll: c, PCh: pc, Val: val})
		for i := 0; i < rng.Range(1, 3); i++ {
			val++
			sc.Ops = append(sc.Ops, STOp{K: "upd_pos", Root: r, Task: t, Coll: c, PCh: pc, Val: val, Which: Pick(rng, []string{"pos", "op", "target", "all"})})
		}
	}
	if rng.Pct(50) {
		sc.Faults = rng.Range(1, 3)
	}
	return sc
}

// ---- reference model

type mPos struct {
	Val     int64
	Dropped bool
}
type mPosRec struct {
	Name   string
	Pos    map[string]mPos
	Op     map[string]mPos
	Target map[string]mPos
}
type mTask struct {
	State  int
	Reason string
	Marker int64
}
type stModel struct {
	Tasks map[string]map[string]*mTask             // root -> task
	Pos   map[string]map[string]map[int64]*mPosRec // root -> task -> coll
	RS    map[string]map[string]string             // root -> key -> marker
}

func newSTModel(roots []string) *stModel {
	m := &stModel{Tasks: map[string]map[string]*mTask{}, Pos: map[string]map[string]map[int64]*mPosRec{}, RS: map[string]map[string]string{}}
	for _, r := range roots {
		m.Tasks[r] = map[string]*mTask{}
		m.Pos[r] = map[string]map[int64]*mPosRec{}
		m.RS[r] = map[string]string{}
	}
	return m
}

func (m *stModel) clone() *stModel {
	b, _ := json.Marshal(m)
	var c stModel
	_ = json.Unmarshal(b, &c)
	return &c
}

func cloneMap(m map[string]mPos) map[string]mPos {
	o := map[string]mPos{}
	for k, v := range m {
		o[k] = v
	}
	return o
}

// apply returns whether the operation is expected to fail (without faults).
func (m *stModel) apply(root string, op STOp) (expectErr bool) {
	switch op.K {
	case "put_task":
		m.Tasks[root][op.Task] = &mTask{State: op.State, Marker: op.Val}
	case "upd_state":
		t := m.Tasks[root][op.Task]
		if t == nil {
			return true
		}
		if len(op.Olds) > 0 {
			ok := false
			for _, o := range op.Olds {
				if o == t.State {
					ok = true
				}
			}
			if !ok {
				return true
			}
		}
		t.State = op.State
		t.Reason = fmt.Sprintf("reason-%d", op.Val)
	case "upd_pos":
		tp := m.Pos[root][op.Task]
		if tp == nil {
			tp = map[int64]*mPosRec{}
			m.Pos[root][op.Task] = tp
		}
		rec := tp[op.Coll]
		if rec == nil {
			rec = &mPosRec{Name: fmt.Sprintf("coll-%d", op.Coll), Pos: map[string]mPos{}, Op: map[string]mPos{}, Target: map[string]mPos{}}
			tp[op.Coll] = rec
			// a first write always stores the data checkpoint of the channel (the caller always supplies one)
			rec.Pos[op.PCh] = mPos{Val: op.Val}
			if op.Which == "op" || op.Which == "all" {
				rec.Op[op.PCh] = mPos{Val: op.Val}
			}
			if op.Which == "target" || op.Which == "all" {
				rec.Target["tgt-"+op.PCh] = mPos{Val: op.Val}
			}
			return false
		}
		set := func(mm map[string]mPos, k string) {
			if old, ok := mm[k]; ok && old.Dropped {
				return
			}
			mm[k] = mPos{Val: op.Val}
		}
		if op.Which == "pos" || op.Which == "all" {
			set(rec.Pos, op.PCh)
		}
		if op.Which == "op" || op.Which == "all" {
			set(rec.Op, op.PCh)
		}
		if op.Which == "target" || op.Which == "all" {
			set(rec.Target, "tgt-"+op.PCh)
		}
	case "mark_dropped":
		rec := m.Pos[root][op.Task][op.Coll]
		if rec == nil {
			return true
		}
		for _, mm := range []map[string]mPos{rec.Pos, rec.Op, rec.Target} {
			for k, v := range mm {
				v.Dropped = true
				mm[k] = v
			}
		}
	case "del_pos":
		delete(m.Pos[root][op.Task], op.Coll)
	case "del_task":
		if m.Tasks[root][op.Task] == nil {
			return true
		}
		delete(m.Tasks[root], op.Task)
		delete(m.Pos[root], op.Task)
	case "rs_put":
		m.RS[root][op.Task+"/"+op.Msg] = fmt.Sprint(op.Val)
	case "rs_remove":
		delete(m.RS[root], op.Task+"/"+op.Msg)
	}
	return false
}

// ---- system under test

type stSystem struct {
	fac map[string]serverapi.MetaStoreFactory // per root
	rs  map[string]coreapi.ReplicateStore
}

type seqGate struct {
	tape    *Tape
	budget  int
	enabled bool
	fired   map[string]int
	calls   int
	// failAt >= 0: the armed operation fails at its failAt-th backend call (calls before it succeed; calls after it - the
	// clean-up paths - fall back to the per-call coin), so that late calls of a multi-step operation (the commit of a
	// transaction) are reached as often as early ones
	failAt int
	inOp   int
	always bool // the next armed operation uses the failAt mode
}

// arm prepares the gate for one operation.
func (g *seqGate) arm(on bool, maxCalls int) {
	g.enabled = on
	g.inOp = 0
	g.failAt = -1
	if on && maxCalls > 0 && (g.always || g.tape.Choose(2) == 0) {
		g.failAt = g.tape.Choose(maxCalls)
	}
}

func (g *seqGate) gate(ctx context.Context, kind, key string) Outcome {
	g.calls++
	if !g.enabled || g.budget <= 0 {
		return Outcome{}
	}
	idx := g.inOp
	g.inOp++
	if g.failAt >= 0 && idx < g.failAt {
		return Outcome{}
	}
	if g.failAt >= 0 && idx == g.failAt {
		g.budget--
		if g.tape.Choose(2) == 0 {
			g.fired["fault:store_err_before"]++
			return Outcome{Fault: "store_err_before"}
		}
		g.fired["fault:store_err_after"]++
		return Outcome{Fault: "store_err_after"}
	}
	// the operation is "armed" (see the loop over the operations): 0..1 ok, 2 err_before, 3 err_after
	switch g.tape.Choose(4) + 4 {
	case 6:
		g.budget--
		g.fired["fault:store_err_before"]++
		return Outcome{Fault: "store_err_before"}
	case 7:
		g.budget--
		g.fired["fault:store_err_after"]++
		return Outcome{Fault: "store_err_after"}
	}
	return Outcome{}
}

func posInfo(v int64, pch string) *meta.PositionInfo {
	return &meta.PositionInfo{Time: v, DataPair: &commonpb.KeyDataPair{Key: pch, Data: []byte(fmt.Sprint(v))}}
}

func (s *stSystem) exec(root string, op STOp) error {
	ctx := context.Background()
	f := s.fac[root]
	switch op.K {
	case "put_task":
		return f.GetTaskInfoMetaStore(ctx).Put(ctx, &meta.TaskInfo{TaskID: op.Task, State: meta.TaskState(op.State), Reason: "", ExcludeCollections: []string{fmt.Sprint(op.Val)}}, nil)
	case "upd_state":
		var olds []meta.TaskState
		for _, o := range op.Olds {
			olds = append(olds, meta.TaskState(o))
		}
		return store.UpdateTaskState(f.GetTaskInfoMetaStore(ctx), op.Task, meta.TaskState(op.State), olds, fmt.Sprintf("reason-%d", op.Val))
	case "upd_pos":
		var p, o, t *meta.PositionInfo
		// the first write of a record always carries the data checkpoint (as the server does)
		p = posInfo(op.Val, op.PCh)
		if op.Which == "op" || op.Which == "all" {
			o = posInfo(op.Val, op.PCh)
		}
		if op.Which == "target" || op.Which == "all" {
			t = posInfo(op.Val, "tgt-"+op.PCh)
		}
		if op.Which == "op" || op.Which == "target" {
			// only the op / target checkpoint is addressed: pass the data checkpoint only if the record does not exist yet
			exist, err := f.GetTaskCollectionPositionMetaStore(ctx).Get(ctx, &meta.TaskCollectionPosition{TaskID: op.Task, CollectionID: op.Coll}, nil)
			if err != nil {
				return err
			}
			if len(exist) > 0 {
				p = nil
			}
		}
		return store.UpdateTaskCollectionPosition(f.GetTaskCollectionPositionMetaStore(ctx), op.Task, op.Coll, fmt.Sprintf("coll-%d", op.Coll), op.PCh, p, o, t)
	case "mark_dropped":
		return store.UpdateDropStateTaskCollectionPosition(f.GetTaskCollectionPositionMetaStore(ctx), op.Task, op.Coll)
	case "del_pos":
		return store.DeleteTaskCollectionPosition(f.GetTaskCollectionPositionMetaStore(ctx), op.Task, op.Coll)
	case "del_task":
		_, err := store.DeleteTask(f, op.Task)
		return err
	case "rs_put":
		return s.rs[root].Put(ctx, op.Task+"/"+op.Msg, coreapi.MetaMsg{Base: coreapi.BaseTaskMsg{TaskID: op.Task, MsgID: op.Msg}, Type: coreapi.DropCollectionMetaMsgType, Data: map[string]interface{}{"marker": fmt.Sprint(op.Val)}})
	case "rs_remove":
		return s.rs[root].Remove(ctx, op.Task+"/"+op.Msg)
	}
	return fmt.Errorf("unknown op %s", op.K)
}

// observe reads everything back through the public API and renders it in the model's vocabulary.
func (s *stSystem) observe(roots []string, universeTasks []string, universeColls []int64, msgs []string) (*stModel, error) {
	ctx := context.Background()
	m := newSTModel(roots)
	conv := func(in map[string]*meta.PositionInfo) map[string]mPos {
		o := map[string]mPos{}
		for k, v := range in {
			if v == nil {
				continue
			}
			o[k] = mPos{Val: v.Time, Dropped: v.Dropped}
		}
		return o
	}
	for _, r := range roots {
		f := s.fac[r]
		infos, err := f.GetTaskInfoMetaStore(ctx).Get(ctx, &meta.TaskInfo{}, nil)
		if err != nil {
			return nil, err
		}
		for _, ti := range infos {
			mk := int64(0)
			if len(ti.ExcludeCollections) == 1 {
				fmt.Sscan(ti.ExcludeCollections[0], &mk)
			}
			if _, dup := m.Tasks[r][ti.TaskID]; dup {
				m.Tasks[r][ti.TaskID+"#dup"] = &mTask{State: int(ti.State), Reason: ti.Reason, Marker: mk}
				continue
			}
			m.Tasks[r][ti.TaskID] = &mTask{State: int(ti.State), Reason: ti.Reason, Marker: mk}
		}
		// per task reads must agree with the full listing
		for _, t := range universeTasks {
			one, err := f.GetTaskInfoMetaStore(ctx).Get(ctx, &meta.TaskInfo{TaskID: t}, nil)
			if err != nil {
				return nil, err
			}
			want := 0
			if m.Tasks[r][t] != nil {
				want = 1
			}
			if len(one) != want || (want == 1 && one[0].TaskID != t) {
				m.Tasks[r][t+"#get"] = &mTask{State: -1, Reason: fmt.Sprintf("Get(task=%s) returned %d records", t, len(one))}
			}
			ps, err := f.GetTaskCollectionPositionMetaStore(ctx).Get(ctx, &meta.TaskCollectionPosition{TaskID: t}, nil)
			if err != nil {
				return nil, err
			}
			for _, p := range ps {
				if m.Pos[r][p.TaskID] == nil {
					m.Pos[r][p.TaskID] = map[int64]*mPosRec{}
				}
				key := p.CollectionID
				if p.TaskID != t {
					// a record of another task leaked into this task's listing
					m.Pos[r][t+"#leak:"+p.TaskID] = map[int64]*mPosRec{key: {Name: p.CollectionName}}
					continue
				}
				if _, dup := m.Pos[r][t][key]; dup {
					key = -key - 1000000
				}
				m.Pos[r][t][key] = &mPosRec{Name: p.CollectionName, Pos: conv(p.Positions), Op: conv(p.OpPositions), Target: conv(p.TargetPositions)}
			}
			for _, c := range universeColls {
				one, err := f.GetTaskCollectionPositionMetaStore(ctx).Get(ctx, &meta.TaskCollectionPosition{TaskID: t, CollectionID: c}, nil)
				if err != nil {
					return nil, err
				}
				want := 0
				if m.Pos[r][t] != nil && m.Pos[r][t][c] != nil {
					want = 1
				}
				if len(one) != want || (want == 1 && (one[0].TaskID != t || one[0].CollectionID != c)) {
					if m.Pos[r][t] == nil {
						m.Pos[r][t] = map[int64]*mPosRec{}
					}
					m.Pos[r][t][-c] = &mPosRec{Name: fmt.Sprintf("Get(task=%s,coll=%d) returned %d records", t, c, len(one))}
				}
			}
			for _, mg := range msgs {
				got, err := s.rs[r].Get(ctx, t+"/"+mg, false)
				if err != nil {
					return nil, err
				}
				for i, g := range got {
					k := t + "/" + mg
					if i > 0 {
						k += fmt.Sprintf("#%d", i)
					}
					m.RS[r][k] = fmt.Sprint(g.Data["marker"])
				}
			}
		}
		for tk, tp := range m.Pos[r] {
			if len(tp) == 0 {
				delete(m.Pos[r], tk)
			}
		}
	}
	return m, nil
}

func canon(m *stModel) string {
	for _, tp := range m.Pos {
		for t, cs := range tp {
			if len(cs) == 0 {
				delete(tp, t)
			}
		}
	}
	b, _ := json.Marshal(m)
	return string(b)
}

func RunRigST(t *testing.T, plan *Plan) {
	cdclog.SetLevel(zapcore.FatalLevel)
	s := NewSim(t, plan)
	s.Start = time.Now()
	var sc *STScript
	if len(plan.Script) > 0 {
		sc = &STScript{}
		if err := json.Unmarshal(plan.Script, sc); err != nil {
			HarnessFail(plan, "bad script: %v", err)
		}
	} else {
		sc = GenST(NewRng(plan.Seed), plan.Prop, plan.Variant)
		b, _ := json.Marshal(sc)
		plan.Script = b
	}
	if plan.Prop == "C17" {
		runC17(s, sc)
	} else {
		runC12(s, sc)
	}
	res := s.Result("ok")
	res.Real = []string{"store.UpdateTaskState/UpdateTaskCollectionPosition/UpdateDropStateTaskCollectionPosition/DeleteTaskCollectionPosition/DeleteTask", "store.EtcdMetaStore + TaskInfoEtcdStore + TaskCollectionPositionEtcdStore", "store.MySQLMetaStore + TaskInfoMysqlStore + TaskCollectionPositionMysqlStore", "store.MySQLReplicateStore", "meta.EtcdReplicateStore", "meta.ReplicateMeteImpl"}
	res.Stub = []string{"etcd server (SimEtcd behind clientv3.KV)", "MySQL server (SimSQL database/sql driver)"}
	res.Sample = sc
	WriteResult(res)
	if res.Status == "violation" {
		os.Exit(1)
	}
	os.Exit(0)
}

func buildST(s *Sim, sc *STScript, g *seqGate) (*stSystem, *SimEtcd, *SimSQL) {
	sys := &stSystem{fac: map[string]serverapi.MetaStoreFactory{}, rs: map[string]coreapi.ReplicateStore{}}
	ctx := context.Background()
	var etcd *SimEtcd
	var sq *SimSQL
	if sc.Backend == "etcd" {
		etcd = NewSimEtcd("meta", g.gate)
		for _, r := range sc.Roots {
			cli := etcd.Client(ctx)
			rs := coremeta.NewEtcdReplicateStoreWithClient(cli, r)
			sys.rs[r] = rs
			sys.fac[r] = store.NewEtcdMetaStoreWithClient(cli, r, rs)
		}
	} else {
		sq = NewSimSQL("meta", g.gate)
		db := sq.Open()
		for _, r := range sc.Roots {
			rs, err := store.NewMySQLReplicateStoreWithDB(ctx, db, r)
			if err != nil {
				HarnessFail(s.Plan, "mysql replicate store: %v", err)
			}
			sys.rs[r] = rs
			f, err := store.NewMySQLMetaStoreWithDB(ctx, db, r, rs)
			if err != nil {
				HarnessFail(s.Plan, "mysql store: %v", err)
			}
			sys.fac[r] = f
		}
	}
	return sys, etcd, sq
}

func runC12(s *Sim, sc *STScript) {
	g := &seqGate{tape: s.Tape, budget: sc.Faults, fired: map[string]int{}, failAt: -1}
	sys, _, sq := buildST(s, sc, g)
	model := newSTModel(sc.Roots)
	taskSet, collSet, msgSet := map[string]bool{}, map[int64]bool{}, map[string]bool{}
	for _, op := range sc.Ops {
		taskSet[op.Task] = true
		collSet[op.Coll] = true
		if op.Msg != "" {
			msgSet[op.Msg] = true
		}
	}
	var tasks, msgs []string
	var colls []int64
	for k := range taskSet {
		tasks = append(tasks, k)
	}
	for k := range collSet {
		colls = append(colls, k)
	}
	for k := range msgSet {
		msgs = append(msgs, k)
	}
	sort.Strings(tasks)
	sort.Strings(msgs)
	sort.Slice(colls, func(i, j int) bool { return colls[i] < colls[j] })
	for i, op := range sc.Ops {
		if op.Root >= len(sc.Roots) {
			continue
		}
		root := sc.Roots[op.Root]
		before := model.clone()
		after := model.clone()
		expectErr := after.apply(root, op)
		firedBefore := g.fired["fault:store_err_before"] + g.fired["fault:store_err_after"]
		// faults are spread over the whole history: an operation is armed with probability 1/4 (deletes of a whole task,
		// the only multi-record transaction, with 1/2), and inside an armed operation every backend call may fail
		arm := 4
		if op.K == "del_task" {
			arm = 2
		}
		g.always = op.K == "del_task"
		g.arm(g.budget > 0 && g.tape.Choose(arm) == 0, 7)
		err := sys.exec(root, op)
		g.arm(false, 0)
		faulted := g.fired["fault:store_err_before"]+g.fired["fault:store_err_after"] > firedBefore
		s.Step = i
		s.logf("%03d %s root=%s task=%s coll=%d pch=%s which=%s val=%d -> err=%v faulted=%v", i, op.K, root, op.Task, op.Coll, op.PCh, op.Which, op.Val, err != nil, faulted)
		if sq != nil && len(sq.Unk) > 0 {
			HarnessFail(s.Plan, "SimSQL does not model: %s", sq.Unk[0])
		}
		obs, oerr := sys.observe(sc.Roots, tasks, colls, msgs)
		if oerr != nil {
			HarnessFail(s.Plan, "observe: %v", oerr)
		}
		co, cb, ca := canon(obs), canon(before), canon(after)
		switch {
		case !faulted && err == nil && expectErr:
			s.Violate("C12", "unexpected_success", "op #%d %s(root=%s task=%s coll=%d) succeeded although the addressed record does not exist / the guard does not hold", i, op.K, root, op.Task, op.Coll)
		case !faulted && err != nil && !expectErr:
			s.Violate("C12", "unexpected_error", "op #%d %s(root=%s task=%s coll=%d) failed without any injected fault: %v", i, op.K, root, op.Task, op.Coll, err)
		}
		okAfter := co == ca
		okBefore := co == cb
		switch {
		case err == nil && !faulted:
			if !okAfter {
				s.Violate("C12", classify(sc, root, op, after, obs, "isolation"), "after op #%d %s(root=%s task=%s coll=%d pch=%s %s): %s", i, op.K, root, op.Task, op.Coll, op.PCh, op.Which, diffModels(after, obs))
			}
			*model = *after
		case err != nil && !faulted:
			if !okBefore {
				s.Violate("C12", classify(sc, root, op, before, obs, "isolation"), "failed op #%d %s(root=%s task=%s coll=%d) changed the store: %s", i, op.K, root, op.Task, op.Coll, diffModels(before, obs))
			}
		default:
			// a fault was injected: the operation is all-or-nothing
			if okAfter {
				*model = *after
			} else if okBefore {
				// unchanged
			} else {
				rule := "isolation_under_fault"
				if op.K == "del_task" {
					rule = "delete_not_atomic"
				}
				if c1, c2 := classify(sc, root, op, after, obs, "isolation"), classify(sc, root, op, before, obs, "isolation"); c1 != "isolation" && (c1 == c2 || c2 == "isolation") {
					rule = c1
				} else if c2 != "isolation" && c1 == "isolation" {
					rule = c2
				}
				s.Violate("C12", rule, "op #%d %s(root=%s task=%s coll=%d) with an injected store fault left a state that is neither the old nor the new one: vs old: %s | vs new: %s", i, op.K, root, op.Task, op.Coll, diffModels(before, obs), diffModels(after, obs))
				*model = *obs
			}
			s.Probe("op_with_fault")
		}
		if len(s.Viol) > 0 {
			break
		}
		if op.K == "del_task" && err == nil {
			s.Probe("task_deleted")
		}
		if op.K == "mark_dropped" && err == nil {
			s.Probe("marked_dropped")
		}
	}
	for k, v := range g.fired {
		s.Stats[k] += v
	}
	s.Stats["store_calls"] = g.calls
	// prefix-sharing probes
	if len(sc.Roots) > 1 {
		s.Probe("multi_root")
	}
}

// classify recognises the two known MySQL defects by their precondition, so that any
// other isolation failure keeps the plain rule id:
//   - DELETE statements are not scoped by root path: a delete under one root removes the
//     same task (/collection) under another root;
//   - the root path is spliced into a LIKE pattern unescaped: reads under a root that
//     contains '_' or '%' also return records of roots matching that pattern.
func classify(sc *STScript, root string, op STOp, want, got *stModel, rule string) string {
	if sc.Backend != "mysql" {
		return rule
	}
	roots := diffRoots(want, got)
	if len(roots) == 0 {
		return rule
	}
	onlyOther, onlyWild := true, true
	for _, r := range roots {
		if r == root {
			onlyOther = false
		}
		if !strings.ContainsAny(r, "_%") {
			onlyWild = false
		}
	}
	if (op.K == "del_pos" || op.K == "del_task") && onlyOther && deletedOnlySameIDs(want, got, op) {
		return rule + "_mysql_delete_not_root_scoped"
	}
	if onlyWild {
		return rule + "_mysql_like_wildcard_root"
	}
	return rule
}

// deletedOnlySameIDs: every difference is a record of op.Task (and op.Coll for del_pos) missing from the store.
func deletedOnlySameIDs(want, got *stModel, op STOp) bool {
	for r, ts := range want.Tasks {
		for t := range ts {
			if got.Tasks[r][t] == nil && (t != op.Task || op.K != "del_task") {
				return false
			}
		}
	}
	for r, ts := range want.Pos {
		for t, cs := range ts {
			for c := range cs {
				if got.Pos[r][t] == nil || got.Pos[r][t][c] == nil {
					if t != op.Task || (op.K == "del_pos" && c != op.Coll) {
						return false
					}
				}
			}
		}
	}
	return true
}

func diffRoots(want, got *stModel) []string {
	set := map[string]bool{}
	cmp := func(a, b any, r string) {
		x, _ := json.Marshal(a)
		y, _ := json.Marshal(b)
		if string(x) != string(y) {
			set[r] = true
		}
	}
	for r := range want.Tasks {
		cmp(want.Tasks[r], got.Tasks[r], r)
		cmp(want.Pos[r], got.Pos[r], r)
		cmp(want.RS[r], got.RS[r], r)
	}
	var out []string
	for r := range set {
		out = append(out, r)
	}
	sort.Strings(out)
	return out
}

func diffModels(want, got *stModel) string {
	var out []string
	wb, _ := json.Marshal(want)
	gb, _ := json.Marshal(got)
	var w, g map[string]any
	_ = json.Unmarshal(wb, &w)
	_ = json.Unmarshal(gb, &g)
	var walk func(path string, a, b any)
	walk = func(path string, a, b any) {
		am, aok := a.(map[string]any)
		bm, bok := b.(map[string]any)
		if aok || bok {
			keys := map[string]bool{}
			for k := range am {
				keys[k] = true
			}
			for k := range bm {
				keys[k] = true
			}
			ks := make([]string, 0, len(keys))
			for k := range keys {
				ks = append(ks, k)
			}
			sort.Strings(ks)
			for _, k := range ks {
				walk(path+"/"+k, am[k], bm[k])
			}
			return
		}
		if !reflect.DeepEqual(a, b) {
			out = append(out, fmt.Sprintf("%s: expected %v, store has %v", path, a, b))
		}
	}
	walk("", w, g)
	if len(out) > 4 {
		out = append(out[:4], "...")
	}
	return strings.Join(out, "; ")
}
