package sim

import (
	"fmt"
	"os"
	"testing"
)

func TestMain(m *testing.M) {
	WatchdogLoop()
	os.Exit(m.Run())
}

// TestChild executes one simulated run described by $VERIF_PLAN and writes the
// result to $VERIF_OUT. It is the only entry point of the child processes.
func TestChild(t *testing.T) {
	if os.Getenv("VERIF_PLAN") == "" {
		t.Skip("not a child invocation")
	}
	plan := LoadPlan()
	switch plan.Rig {
	case "R":
		RunRigR(t, plan)
	case "C":
		RunRigC(t, plan)
	case "WD":
		RunRigWD(t, plan)
	case "W7":
		RunRigW7(t, plan)
	case "P":
		RunRigP(t, plan)
	case "S":
		RunRigS(t, plan)
	case "ST":
		RunRigST(t, plan)
	default:
		fmt.Fprintln(os.Stderr, "verif: unknown rig", plan.Rig)
		os.Exit(2)
	}
}
