package sim

import (
	"encoding/json"
	"errors"
	"fmt"
	"os"
	"strings"
	"sync"
	"testing"
	"testing/synctest"
	"time"

	"github.com/milvus-io/milvus-proto/go-api/v2/commonpb"
	"github.com/milvus-io/milvus-proto/go-api/v2/msgpb"
	"github.com/milvus-io/milvus-proto/go-api/v2/schemapb"
	"github.com/milvus-io/milvus/pkg/mq/msgstream"
	"go.uber.org/zap/zapcore"

	"github.com/zilliztech/milvus-cdc/core/api"
	cdclog "github.com/zilliztech/milvus-cdc/core/log"
	"github.com/zilliztech/milvus-cdc/server/msgpacker"
)

// ------------------------------------------------------------------ rig P: the write batcher (C14)

type POp struct {
	K    string `json:"k"` // recv | clear
	Size int    `json:"size,omitempty"`
	ID   int    `json:"id,omitempty"`
}

type PScript struct {
	TimerMs     int     `json:"timer_ms"`
	MaxCount    int     `json:"max_count"`
	MaxMsgKB    int     `json:"max_msg_kb"`
	MemLimitKB  int     `json:"mem_limit_kb"`
	Packers     [][]POp `json:"packers"`
	CbFaults    int     `json:"cb_faults"`
	ClockWeight int     `json:"clock_w"`
}

func GenP(rng *Rng) *PScript {
	sc := &PScript{
		TimerMs: Pick(rng, []int{50, 500, 5000}), MaxCount: Pick(rng, []int{1, 2, 3, 5, 100}),
		MaxMsgKB: Pick(rng, []int{1, 4, 64}), MemLimitKB: Pick(rng, []int{2, 8, 64, 1024}), ClockWeight: Pick(rng, []int{1, 3}),
	}
	n := rng.Range(1, 3)
	id := 0
	for p := 0; p < n; p++ {
		var ops []POp
		for i := 0; i < rng.Range(2, 12); i++ {
			if rng.Pct(10) {
				ops = append(ops, POp{K: "clear"})
				continue
			}
			id++
			ops = append(ops, POp{K: "recv", ID: id, Size: Pick(rng, []int{0, 10, 200, 900, 1500, 3000, 6000})})
		}
		ops = append(ops, POp{K: "clear"}) // channel shutdown
		sc.Packers = append(sc.Packers, ops)
	}
	if rng.Pct(40) {
		sc.CbFaults = rng.Range(1, 2)
	}
	return sc
}

func packOfSize(id, size int) *api.ReplicateMsg {
	pack := &msgstream.MsgPack{}
	if size > 0 {
		txt := strings.Repeat("x", size)
		pack.Msgs = append(pack.Msgs, &msgstream.InsertMsg{
			BaseMsg: msgstream.BaseMsg{HashValues: []uint32{0}},
			InsertRequest: &msgpb.InsertRequest{Base: &commonpb.MsgBase{MsgType: commonpb.MsgType_Insert, MsgID: int64(id)}, NumRows: 1, RowIDs: []int64{int64(id)}, Timestamps: []uint64{1},
				FieldsData: []*schemapb.FieldData{{Type: schemapb.DataType_VarChar, FieldName: "t", Field: &schemapb.FieldData_Scalars{Scalars: &schemapb.ScalarField{Data: &schemapb.ScalarField_StringData{StringData: &schemapb.StringArray{Data: []string{txt}}}}}}}},
		})
	}
	pack.Msgs = append(pack.Msgs, &msgstream.TimeTickMsg{BaseMsg: msgstream.BaseMsg{HashValues: []uint32{0}}, TimeTickMsg: &msgpb.TimeTickMsg{Base: &commonpb.MsgBase{MsgType: commonpb.MsgType_TimeTick, MsgID: int64(id)}}})
	return &api.ReplicateMsg{CollectionID: int64(id), MsgPack: pack}
}

func RunRigP(t *testing.T, plan *Plan) {
	cdclog.SetLevel(zapcore.FatalLevel)
	var sc *PScript
	if len(plan.Script) > 0 {
		sc = &PScript{}
		if err := json.Unmarshal(plan.Script, sc); err != nil {
			HarnessFail(plan, "bad script: %v", err)
		}
	} else {
		sc = GenP(NewRng(plan.Seed))
		b, _ := json.Marshal(sc)
		plan.Script = b
	}
	synctest.Test(t, func(t *testing.T) {
		s := NewSim(t, plan)
		s.Start = time.Now()
		StartWatchdogOutside(s)
		s.FaultBudget["cb_err"] = sc.CbFaults
		var mu sync.Mutex
		type pstate struct {
			buffered []int // ids received and not yet handed to the callback
			inCb     bool
			done     bool
		}
		states := make([]*pstate, len(sc.Packers))
		cbErr := errors.New("sim: downstream write failed")
		for pi, ops := range sc.Packers {
			pi, ops := pi, ops
			st := &pstate{}
			states[pi] = st
			packer := msgpacker.NewPacker(msgpacker.PackerConfig{TimerInterval: sc.TimerMs, MaxCount: sc.MaxCount, MaxMsgSize: sc.MaxMsgKB, MemoryLimit: sc.MemLimitKB})
			go func() {
				handler := func(msgs []*api.ReplicateMsg) error {
					mu.Lock()
					st.inCb = true
					var got []int
					for _, m := range msgs {
						got = append(got, int(m.CollectionID))
					}
					want := append([]int(nil), st.buffered...)
					st.buffered = nil
					mu.Unlock()
					if fmt.Sprint(got) != fmt.Sprint(want) {
						s.Violate("C14", "callback_content", "packer %d: callback received packs %v, the packs buffered since the last flush are %v (exactly once, arrival order)", pi, got, want)
					}
					if len(got) > 1 {
						s.Probe("batch_of_several")
					}
					o := s.Park(nil, "cb", fmt.Sprintf("p%d:%v", pi, got), nil)
					mu.Lock()
					st.inCb = false
					mu.Unlock()
					if o.Fault != "" {
						return cbErr
					}
					return nil
				}
				for oi, op := range ops {
					s.Park(nil, "p", fmt.Sprintf("p%d:op%02d:%s", pi, oi, op.K), nil)
					cbBefore := s.countCb(pi)
					var err error
					if op.K == "recv" {
						mu.Lock()
						st.buffered = append(st.buffered, op.ID)
						mu.Unlock()
						err = packer.Receive(packOfSize(op.ID, op.Size), handler)
					} else {
						err = packer.ClearMsgs(handler)
						s.Probe("clear")
					}
					faulted := s.cbFaulted(pi, cbBefore)
					if faulted != (err != nil) {
						s.Violate("C14", "callback_error", "packer %d op %d (%s): callback failed=%v but the call returned err=%v", pi, oi, op.K, faulted, err)
					}
					if err != nil && err != cbErr {
						s.Violate("C14", "callback_error", "packer %d op %d: returned a different error: %v", pi, oi, err)
					}
				}
				mu.Lock()
				st.done = true
				mu.Unlock()
			}()
		}
		s.OnRelease = func(c *Call, o Outcome) {
			if c.Kind == "cb" {
				key := strings.SplitN(c.Key, ":", 2)[0]
				s.mu.Lock()
				s.cbLog = append(s.cbLog, cbRec{key, o.Fault != ""})
				s.mu.Unlock()
			}
		}
		for s.Step < 600 {
			s.Settle()
			// invariant: whenever every packer is empty and no callback is running, the global counter is zero
			mu.Lock()
			allEmpty := true
			for _, st := range states {
				if len(st.buffered) != 0 || st.inCb {
					allEmpty = false
				}
			}
			mu.Unlock()
			parkedOnlyOps := true
			for _, c := range s.Parked() {
				if c.Kind == "cb" {
					parkedOnlyOps = false
				}
			}
			if allEmpty && parkedOnlyOps {
				s.Probe("all_empty_checked")
				if cur := msgpacker.VerifMemoryCurrent(); cur != 0 {
					s.Violate("C14", "memory_counter", "every batcher is empty but the global buffered-bytes counter is %d", cur)
				}
			}
			acts := s.ReleaseActions(func(c *Call) []string {
				if c.Kind == "cb" {
					return []string{"cb_err"}
				}
				return nil
			})
			if len(acts) == 0 {
				break
			}
			for _, ms := range []int{10, 100, 1000, 10000} {
				ms := ms
				acts = append(acts, Action{Key: fmt.Sprintf("clk:%05d", ms), Weight: sc.ClockWeight, Run: func() { s.Stats["clock_advance"]++; s.Advance(time.Duration(ms) * time.Millisecond) }})
			}
			s.StepOnce(acts)
		}
		s.Settle()
		mu.Lock()
		for pi, st := range states {
			if !st.done {
				s.Violate("C14", "not_finished", "packer %d did not finish its script", pi)
			}
			if len(st.buffered) != 0 {
				s.Violate("C14", "lost_at_shutdown", "packer %d: packs %v were never handed to the callback although the channel was shut down", pi, st.buffered)
			}
		}
		mu.Unlock()
		res := s.Result("ok")
		res.Real = []string{"msgpacker.Packer", "msgpacker.MemoryProtector (global)", "TimerChecker / MsgCountChecker"}
		res.Stub = []string{"write callback (scripted, parked)", "clock (synctest bubble)"}
		res.Sample = sc
		WriteResult(res)
		if res.Status == "violation" {
			os.Exit(1)
		}
		os.Exit(0)
	})
}

type cbRec struct {
	packer string
	fault  bool
}

func (s *Sim) countCb(pi int) int {
	s.mu.Lock()
	defer s.mu.Unlock()
	n := 0
	for _, r := range s.cbLog {
		if r.packer == fmt.Sprintf("p%d", pi) {
			n++
		}
	}
	return n
}

func (s *Sim) cbFaulted(pi int, since int) bool {
	s.mu.Lock()
	defer s.mu.Unlock()
	n := 0
	f := false
	for _, r := range s.cbLog {
		if r.packer == fmt.Sprintf("p%d", pi) {
			if n >= since && r.fault {
				f = true
			}
			n++
		}
	}
	return f
}
