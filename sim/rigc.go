package sim

import (
	"context"
	"encoding/json"
	"fmt"
	"os"
	"sort"
	"strings"
	"sync"
	"testing"
	"testing/synctest"
	"time"

	"github.com/milvus-io/milvus-proto/go-api/v2/commonpb"
	"github.com/milvus-io/milvus-proto/go-api/v2/msgpb"
	"github.com/milvus-io/milvus-proto/go-api/v2/schemapb"
	clientv3 "go.etcd.io/etcd/client/v3"
	"go.uber.org/zap/zapcore"
	"google.golang.org/protobuf/proto"

	"github.com/zilliztech/milvus-cdc/core/api"
	"github.com/zilliztech/milvus-cdc/core/config"
	cdclog "github.com/zilliztech/milvus-cdc/core/log"
	"github.com/zilliztech/milvus-cdc/core/model"
	"github.com/zilliztech/milvus-cdc/core/pb"
	"github.com/zilliztech/milvus-cdc/core/reader"
	"github.com/zilliztech/milvus-cdc/core/util"
)

// ------------------------------------------------------------------ the source catalog as rootcoord writes it

const catRoot = "by-dev"

func catCollKey(dbID, collID int64) string {
	return fmt.Sprintf("%s/meta/root-coord/database/collection-info/%d/%d", catRoot, dbID, collID)
}
func catDBKey(dbID int64) string {
	return fmt.Sprintf("%s/meta/root-coord/database/db-info/%d", catRoot, dbID)
}
func catPartKey(collID, partID int64) string {
	return fmt.Sprintf("%s/meta/root-coord/partitions/%d/%d", catRoot, collID, partID)
}
func catFieldKey(collID, fieldID int64) string {
	return fmt.Sprintf("%s/meta/root-coord/fields/%d/%d", catRoot, collID, fieldID)
}
func catTsKey() string { return catRoot + "/kv/gid/timestamp" }

var tombstone = string(util.SuffixSnapshotTombstone)

// CatWrite is one put of the source Milvus into its etcd.
type CatWrite struct {
	What  string `json:"w"` // db | dbtomb | coll | colltomb | part | parttomb | fields
	DB    int64  `json:"db,omitempty"`
	DBN   string `json:"dbn,omitempty"`
	Coll  int64  `json:"c,omitempty"`
	Name  string `json:"n,omitempty"`
	Part  int64  `json:"p,omitempty"`
	PName string `json:"pn,omitempty"`
	State int    `json:"s,omitempty"` // pb state value
	Ts    uint64 `json:"ts,omitempty"`
	Shard int    `json:"sh,omitempty"`
	Pre   bool   `json:"pre,omitempty"` // applied before the CDC reader starts
	// StartSeq, when set, gives the start position (message id) per shard; default: the beginning of the pchannel
	StartSeq []int `json:"ss,omitempty"`
}

func mustMarshal(m proto.Message) string {
	b, err := proto.Marshal(m)
	if err != nil {
		panic(err)
	}
	return string(b)
}

func catCollInfo(w *CatWrite) *pb.CollectionInfo {
	info := &pb.CollectionInfo{ID: w.Coll, DbId: w.DB, CreateTime: w.Ts, State: pb.CollectionState(w.State), ShardsNum: int32(w.Shard),
		Schema: &schemapb.CollectionSchema{Name: w.Name, Description: "src"}, ConsistencyLevel: commonpb.ConsistencyLevel_Bounded}
	for i := 0; i < w.Shard; i++ {
		p := srcPCh(i)
		info.PhysicalChannelNames = append(info.PhysicalChannelNames, p)
		info.VirtualChannelNames = append(info.VirtualChannelNames, vchan(p, w.Coll, i))
		ss := 0
		if i < len(w.StartSeq) {
			ss = w.StartSeq[i]
		}
		info.StartPositions = append(info.StartPositions, &commonpb.KeyDataPair{Key: p, Data: SeqToMsgID(ss)})
	}
	return info
}

// Apply performs the write on the simulated etcd.
func (w *CatWrite) Apply(e *SimEtcd) {
	switch w.What {
	case "db":
		e.DirectPut(catDBKey(w.DB), mustMarshal(&pb.DatabaseInfo{Id: w.DB, Name: w.DBN, State: pb.DatabaseState_DatabaseCreated, CreatedTime: w.Ts}))
	case "dbtomb":
		e.DirectPut(catDBKey(w.DB), tombstone)
	case "fields":
		e.DirectPut(catFieldKey(w.Coll, 0), mustMarshal(&schemapb.FieldSchema{FieldID: 0, Name: "RowID", DataType: schemapb.DataType_Int64}))
		e.DirectPut(catFieldKey(w.Coll, 1), mustMarshal(&schemapb.FieldSchema{FieldID: 1, Name: "Timestamp", DataType: schemapb.DataType_Int64}))
		e.DirectPut(catFieldKey(w.Coll, 100), mustMarshal(&schemapb.FieldSchema{FieldID: 100, Name: "pk", IsPrimaryKey: true, DataType: schemapb.DataType_Int64}))
		e.DirectPut(catFieldKey(w.Coll, 101), mustMarshal(&schemapb.FieldSchema{FieldID: 101, Name: "vec", DataType: schemapb.DataType_FloatVector, TypeParams: []*commonpb.KeyValuePair{{Key: "dim", Value: "4"}}}))
	case "coll":
		e.DirectPut(catCollKey(w.DB, w.Coll), mustMarshal(catCollInfo(w)))
	case "colltomb":
		e.DirectPut(catCollKey(w.DB, w.Coll), tombstone)
	case "part":
		e.DirectPut(catPartKey(w.Coll, w.Part), mustMarshal(&pb.PartitionInfo{PartitionID: w.Part, PartitionName: w.PName, PartitionCreatedTimestamp: w.Ts, CollectionId: w.Coll, State: pb.PartitionState(w.State)}))
	case "parttomb":
		e.DirectPut(catPartKey(w.Coll, w.Part), tombstone)
	}
}

// ------------------------------------------------------------------ rig C script

type CScript struct {
	Writes    []CatWrite `json:"writes"`
	Tasks     []CTask    `json:"tasks"`
	RangeMode int        `json:"range_mode"`
	Faults    int        `json:"faults"`
	MaxSteps  int        `json:"max_steps"`
}

type CTask struct {
	ID  string   `json:"id"`
	DBs []string `json:"dbs"` // databases this task replicates ("*" = all)
}

func GenC(rng *Rng) *CScript {
	sc := &CScript{RangeMode: rng.Intn(3), MaxSteps: 500}
	if rng.Pct(35) {
		sc.Tasks = []CTask{{ID: "taskA", DBs: []string{"default"}}, {ID: "taskB", DBs: []string{"dbx"}}}
	} else {
		sc.Tasks = []CTask{{ID: "taskA", DBs: []string{"*"}}}
	}
	ts := uint64(40_000)
	next := func() uint64 { ts += uint64(rng.Range(1, 9)); return ts }
	id := int64(3000)
	newID := func() int64 { id += int64(rng.Range(1, 5)); return id }
	sc.Writes = append(sc.Writes, CatWrite{What: "db", DB: 1, DBN: "default", Ts: next(), Pre: true})
	haveDBX := rng.Pct(60)
	if haveDBX {
		sc.Writes = append(sc.Writes, CatWrite{What: "db", DB: 7, DBN: "dbx", Ts: next(), Pre: rng.Pct(70)})
	}
	type cst struct {
		id    int64
		db    int64
		name  string
		alive bool
		parts map[string]int64
		shard int
		ts    uint64
	}
	byName := map[string]*cst{}
	names := []string{"c1", "c2", "c3"}
	if rng.Pct(35) {
		// several incarnations of one name left in the catalog before the reader starts (dropped ones not yet collected)
		k := rng.Range(2, 4)
		for i := 0; i < k; i++ {
			cid := newID()
			cts := next()
			sc.Writes = append(sc.Writes, CatWrite{What: "fields", Coll: cid, Pre: true})
			sc.Writes = append(sc.Writes, CatWrite{What: "coll", DB: 1, Coll: cid, Name: "rep", State: int(pb.CollectionState_CollectionCreated), Ts: cts, Shard: 1, Pre: true})
			if i < k-1 || rng.Pct(30) {
				sc.Writes = append(sc.Writes, CatWrite{What: "coll", DB: 1, Coll: cid, Name: "rep", State: int(Pick(rng, []pb.CollectionState{pb.CollectionState_CollectionDropping, pb.CollectionState_CollectionDropped})), Ts: cts, Shard: 1, Pre: true})
			}
		}
	}
	pre := true
	n := rng.Range(3, 12)
	for i := 0; i < n; i++ {
		if pre && rng.Pct(35) {
			pre = false
		}
		db := int64(1)
		if haveDBX && rng.Pct(40) {
			db = 7
		}
		nm := Pick(rng, names)
		key := fmt.Sprintf("%d/%s", db, nm)
		c := byName[key]
		switch r := rng.Intn(100); {
		case r < 45:
			if c != nil && c.alive {
				continue
			}
			c = &cst{id: newID(), db: db, name: nm, alive: true, parts: map[string]int64{}, shard: rng.Range(1, 2), ts: next()}
			sc.Writes = append(sc.Writes, CatWrite{What: "fields", Coll: c.id, Pre: pre})
			sc.Writes = append(sc.Writes, CatWrite{What: "coll", DB: db, Coll: c.id, Name: nm, State: int(pb.CollectionState_CollectionCreating), Ts: c.ts, Shard: c.shard, Pre: pre})
			sc.Writes = append(sc.Writes, CatWrite{What: "part", Coll: c.id, Part: newID(), PName: "_default", State: int(pb.PartitionState_PartitionCreated), Ts: c.ts, Pre: pre})
			if rng.Pct(12) {
				// the creation fails and is rolled back: creating -> gone
				sc.Writes = append(sc.Writes, CatWrite{What: "colltomb", DB: db, Coll: c.id, Name: nm, Pre: pre})
				continue
			}
			sc.Writes = append(sc.Writes, CatWrite{What: "coll", DB: db, Coll: c.id, Name: nm, State: int(pb.CollectionState_CollectionCreated), Ts: c.ts, Shard: c.shard, Pre: pre})
			byName[key] = c
		case r < 60:
			if c == nil || !c.alive {
				continue
			}
			c.alive = false
			sc.Writes = append(sc.Writes, CatWrite{What: "coll", DB: db, Coll: c.id, Name: nm, State: int(pb.CollectionState_CollectionDropping), Ts: c.ts, Shard: c.shard, Pre: pre})
			if rng.Pct(50) {
				sc.Writes = append(sc.Writes, CatWrite{What: "colltomb", DB: db, Coll: c.id, Name: nm, Pre: pre})
			}
		case r < 85:
			if c == nil || !c.alive {
				continue
			}
			pn := Pick(rng, []string{"p1", "p2"})
			if pid, ok := c.parts[pn]; ok {
				delete(c.parts, pn)
				sc.Writes = append(sc.Writes, CatWrite{What: "part", Coll: c.id, Part: pid, PName: pn, State: int(pb.PartitionState_PartitionDropping), Ts: next(), Pre: pre})
				if rng.Pct(50) {
					sc.Writes = append(sc.Writes, CatWrite{What: "parttomb", Coll: c.id, Part: pid, PName: pn, Pre: pre})
				}
				continue
			}
			pid := newID()
			pts := next()
			sc.Writes = append(sc.Writes, CatWrite{What: "part", Coll: c.id, Part: pid, PName: pn, State: int(pb.PartitionState_PartitionCreating), Ts: pts, Pre: pre})
			if rng.Pct(10) {
				sc.Writes = append(sc.Writes, CatWrite{What: "parttomb", Coll: c.id, Part: pid, PName: pn, Pre: pre})
				continue
			}
			sc.Writes = append(sc.Writes, CatWrite{What: "part", Coll: c.id, Part: pid, PName: pn, State: int(pb.PartitionState_PartitionCreated), Ts: pts, Pre: pre})
			c.parts[pn] = pid
		}
	}
	if rng.Pct(30) {
		sc.Faults = rng.Range(1, 2)
	}
	return sc
}

// ------------------------------------------------------------------ recording channel manager

type cmCall struct {
	Kind string
	Task string
	Coll int64
	Part int64
	IDs  []int64
	Step int
	Name string
}

type recManager struct {
	api.DefaultChannelManager
	s     *Sim
	mu    sync.Mutex
	calls []cmCall
}

func (m *recManager) rec(c cmCall) {
	c.Step = m.s.Step
	sort.Slice(c.IDs, func(i, j int) bool { return c.IDs[i] < c.IDs[j] }) // set-valued argument (map key order)
	m.mu.Lock()
	m.calls = append(m.calls, c)
	m.mu.Unlock()
	m.s.Side("cm %s task=%s coll=%d part=%d ids=%v", c.Kind, c.Task, c.Coll, c.Part, c.IDs)
}
func (m *recManager) AddDroppedCollection(ids []int64) {
	m.rec(cmCall{Kind: "dropped_coll", IDs: append([]int64(nil), ids...)})
}
func (m *recManager) AddDroppedPartition(ids []int64) {
	m.rec(cmCall{Kind: "dropped_part", IDs: append([]int64(nil), ids...)})
}
func (m *recManager) StartReadCollection(ctx context.Context, db *model.DatabaseInfo, info *pb.CollectionInfo, seek []*msgpb.MsgPosition, st map[string]uint64) error {
	m.rec(cmCall{Kind: "start", Task: util.GetTaskIDFromCtx(ctx), Coll: info.ID, Name: db.Name + "/" + info.Schema.GetName()})
	return nil
}
func (m *recManager) StopReadCollection(ctx context.Context, info *pb.CollectionInfo) error {
	m.rec(cmCall{Kind: "stop", Task: util.GetTaskIDFromCtx(ctx), Coll: info.ID})
	return nil
}
func (m *recManager) AddPartition(ctx context.Context, db *model.DatabaseInfo, c *pb.CollectionInfo, p *pb.PartitionInfo) error {
	m.rec(cmCall{Kind: "addpart", Task: util.GetTaskIDFromCtx(ctx), Coll: c.ID, Part: p.PartitionID, Name: p.PartitionName})
	return nil
}

// ------------------------------------------------------------------ run

func RunRigC(t *testing.T, plan *Plan) {
	cdclog.SetLevel(zapcore.FatalLevel)
	var sc *CScript
	if len(plan.Script) > 0 {
		sc = &CScript{}
		if err := json.Unmarshal(plan.Script, sc); err != nil {
			HarnessFail(plan, "bad script: %v", err)
		}
	} else {
		sc = GenC(NewRng(plan.Seed))
		b, _ := json.Marshal(sc)
		plan.Script = b
	}
	synctest.Test(t, func(t *testing.T) {
		s := NewSim(t, plan)
		s.Start = time.Now()
		StartWatchdogOutside(s)
		s.FaultBudget["store_err_before"] = sc.Faults
		installRangeOrder(sc.RangeMode)
		etcd := NewSimEtcd("src", func(ctx context.Context, kind, key string) Outcome { return s.Park(ctx, "cat", key, nil) })
		etcd.DirectPut(catTsKey(), "x")
		next := 0
		for next < len(sc.Writes) && sc.Writes[next].Pre {
			sc.Writes[next].Apply(etcd)
			next++
		}
		// a Pre flag after the first non-pre write is ignored (writes keep their order)
		ctx, cancel := context.WithCancel(context.Background())
		defer cancel()
		reader.VerifEtcdClient = func(cfg config.EtcdServerConfig) *clientv3.Client { return etcd.Client(ctx) }
		op, err := reader.NewEtcdOp(config.EtcdServerConfig{Address: []string{"sim:2379"}, RootPath: catRoot, MetaSubPath: "meta"}, "_default", config.EtcdRetryConfig{Retry: config.RetrySettings{RetryTimes: 5, InitBackOff: 1, MaxBackOff: 1}}, nil)
		if err != nil {
			HarnessFail(plan, "etcd op: %v", err)
		}
		mgr := &recManager{s: s}
		var errs []string
		var emu sync.Mutex
		started := 0
		for _, tk := range sc.Tasks {
			tk := tk
			should := func(db *model.DatabaseInfo, info *pb.CollectionInfo) (bool, bool) {
				for _, d := range tk.DBs {
					if d == "*" || d == db.Name {
						return false, true
					}
				}
				return false, false
			}
			rd, err := reader.NewCollectionReader(tk.ID, mgr, op, nil, nil, should, config.ReaderConfig{Retry: config.RetrySettings{RetryTimes: 5, InitBackOff: 1, MaxBackOff: 1}})
			if err != nil {
				HarnessFail(plan, "collection reader: %v", err)
			}
			go func() {
				s.Park(nil, "h", "startread:"+tk.ID, nil)
				rd.StartRead(ctx)
				emu.Lock()
				started++
				emu.Unlock()
				s.Side("StartRead of %s returned", tk.ID)
			}()
			go func() {
				for e := range rd.ErrorChan() {
					if e != nil {
						emu.Lock()
						errs = append(errs, tk.ID+": "+e.Error())
						emu.Unlock()
					}
				}
			}()
		}
		acts := func(drain bool) []Action {
			as := s.ReleaseActions(func(c *Call) []string {
				if c.Kind == "cat" && strings.HasPrefix(c.Key, "src:get:") {
					return []string{"store_err_before"}
				}
				return nil
			})
			if next < len(sc.Writes) {
				as = append(as, Action{Key: fmt.Sprintf("up:%03d:%s", next, sc.Writes[next].What), Weight: 5, Run: func() {
					w := &sc.Writes[next]
					next++
					w.Apply(etcd)
					s.Side("catalog write %s coll=%d part=%d state=%d", w.What, w.Coll, w.Part, w.State)
				}})
			}
			for _, w := range etcd.DeliverableWatchers() {
				w := w
				as = append(as, Action{Key: "watch:" + w.Key(), Weight: 4, Run: func() { n := w.DeliverOne(); s.Side("watch delivered %d event(s) to %s", n, w.Key()) }})
			}
			return as
		}
		idle := 0
		for s.Step < sc.MaxSteps {
			s.Settle()
			as := acts(false)
			if len(as) == 0 {
				idle++
				if idle > 60 {
					break
				}
				s.Advance(500 * time.Millisecond)
				continue
			}
			idle = 0
			as = append(as, Action{Key: "clk:0500", Weight: 1, Run: func() { s.Stats["clock_advance"]++; s.Advance(500 * time.Millisecond) }})
			s.StepOnce(as)
		}
		s.Draining = true
		idle = 0
		for n := 0; idle < 60 && n < 4000; n++ {
			s.Settle()
			as := acts(true)
			if len(as) == 0 {
				idle++
				s.Advance(500 * time.Millisecond)
				continue
			}
			idle = 0
			sort.Slice(as, func(i, j int) bool { return as[i].Key < as[j].Key })
			s.logf("%04d drain %s", s.Step, as[0].Key)
			s.Step++
			s.Tick()
			as[0].Run()
		}
		s.Settle()
		emu.Lock()
		nStarted, nErrs := started, len(errs)
		emu.Unlock()
		if nStarted != len(sc.Tasks) {
			s.Violate("C13", "start_stuck", "StartRead returned for %d of %d tasks", nStarted, len(sc.Tasks))
		}
		if nErrs == 0 {
			oracleC(s, sc, mgr)
		} else {
			s.Probe("reader_reported_error")
		}
		res := s.Result("ok")
		res.Real = []string{"reader.CollectionReader (StartRead: subscribe, watch, list, start-watch)", "reader.EtcdOp (watch loops, listing, field fill, name caches, 16-worker event pool)"}
		res.Stub = []string{"source etcd (SimEtcd with scheduled watch delivery)", "rootcoord (catalog write generator)", "api.ChannelManager (recording)"}
		res.Sample = map[string]any{"writes": len(sc.Writes), "tasks": sc.Tasks, "first_writes": sc.Writes[:min(6, len(sc.Writes))]}
		WriteResult(res)
		if res.Status == "violation" {
			os.Exit(1)
		}
		os.Exit(0)
	})
}

func oracleC(s *Sim, sc *CScript, mgr *recManager) {
	type cinfo struct {
		id, db  int64
		name    string
		states  []int // sequence of states written (-1 = tombstone)
		preLast int   // last state written before the reader started (-2 none)
	}
	colls := map[int64]*cinfo{}
	type pinfo struct {
		id, coll int64
		name     string
		states   []int
	}
	parts := map[int64]*pinfo{}
	dbName := map[int64]string{}
	var order []int64
	for _, w := range sc.Writes {
		switch w.What {
		case "db":
			dbName[w.DB] = w.DBN
		case "coll", "colltomb":
			c := colls[w.Coll]
			if c == nil {
				c = &cinfo{id: w.Coll, db: w.DB, name: w.Name, preLast: -2}
				colls[w.Coll] = c
				order = append(order, w.Coll)
			}
			st := w.State
			if w.What == "colltomb" {
				st = -1
			}
			c.states = append(c.states, st)
		case "part", "parttomb":
			p := parts[w.Part]
			if p == nil {
				p = &pinfo{id: w.Part, coll: w.Coll, name: w.PName}
				parts[w.Part] = p
			}
			st := w.State
			if w.What == "parttomb" {
				st = -1
			}
			p.states = append(p.states, st)
		}
	}
	selected := func(task string, db int64) bool {
		for _, tk := range sc.Tasks {
			if tk.ID != task {
				continue
			}
			for _, d := range tk.DBs {
				if d == "*" || d == dbName[db] {
					return true
				}
			}
		}
		return false
	}
	mgr.mu.Lock()
	calls := append([]cmCall(nil), mgr.calls...)
	mgr.mu.Unlock()
	startsOf := func(id int64) []cmCall {
		var out []cmCall
		for _, c := range calls {
			if c.Kind == "start" && c.Coll == id {
				out = append(out, c)
			}
		}
		return out
	}
	created := int(pb.CollectionState_CollectionCreated)
	creating := int(pb.CollectionState_CollectionCreating)
	for _, id := range order {
		c := colls[id]
		last := c.states[len(c.states)-1]
		ever := false
		for _, st := range c.states {
			if st == created {
				ever = true
			}
		}
		st := startsOf(id)
		if !ever {
			// creating -> dropped directly (or still creating): must be ignored
			if len(st) > 0 {
				s.Violate("C13", "started_never_created", "collection %d (%s) never reached the created state but replication was started for it", id, c.name)
			}
			if last == -1 && len(c.states) >= 2 && c.states[len(c.states)-2] == creating {
				s.Probe("creating_to_dropped")
			}
			continue
		}
		if last == created {
			// exists at the end: some selected task must have started it
			var owner string
			for _, tk := range sc.Tasks {
				if selected(tk.ID, c.db) {
					owner = tk.ID
				}
			}
			if owner == "" {
				if len(st) > 0 {
					s.Violate("C13", "started_unselected", "collection %d (%s) is selected by no task but was started by %s", id, c.name, st[0].Task)
				}
				continue
			}
			if len(st) == 0 {
				s.Violate("C13", "missed_collection", "collection %d (%s in %s) exists in the source catalog (created) and is selected by %s, but its replication was never started", id, c.name, dbName[c.db], owner)
			}
			for _, x := range st {
				if !selected(x.Task, c.db) {
					s.Violate("C13", "started_unselected", "collection %d (%s) was started by task %s which does not select database %s", id, c.name, x.Task, dbName[c.db])
				}
			}
			if len(st) >= 2 {
				s.Probe("notified_twice")
			}
			s.Probe("live_collection")
		}
	}
	// partitions of live, started collections
	pcreated := int(pb.PartitionState_PartitionCreated)
	for _, p := range parts {
		if p.name == "_default" {
			continue
		}
		c := colls[p.coll]
		if c == nil || c.states[len(c.states)-1] != created || len(startsOf(c.id)) == 0 {
			continue
		}
		last := p.states[len(p.states)-1]
		ever := false
		for _, st := range p.states {
			if st == pcreated {
				ever = true
			}
		}
		n := 0
		for _, x := range calls {
			if x.Kind == "addpart" && x.Part == p.id {
				n++
				if x.Coll != p.coll {
					s.Violate("C13", "partition_wrong_collection", "partition %d (%s) of collection %d was added to collection %d", p.id, p.name, p.coll, x.Coll)
				}
			}
		}
		if !ever && n > 0 {
			s.Violate("C13", "started_never_created", "partition %d (%s) never reached the created state but was added", p.id, p.name)
		}
		if last == pcreated && n == 0 {
			s.Violate("C13", "missed_partition", "partition %d (%s) of collection %d (%s) exists (created) but was never added to the replication", p.id, p.name, p.coll, c.name)
		}
		if last == pcreated {
			s.Probe("live_partition")
		}
	}
	// several incarnations of one name present (and unchanged) while the reader listed the catalog:
	// only the newest may be started, the older ones must be recorded as dropped
	allPre := map[int64]bool{}
	createTs := map[int64]uint64{}
	for _, w := range sc.Writes {
		if w.What == "coll" || w.What == "colltomb" {
			if _, seen := allPre[w.Coll]; !seen {
				allPre[w.Coll] = true
			}
			if !w.Pre {
				allPre[w.Coll] = false
			}
			if w.What == "coll" {
				createTs[w.Coll] = w.Ts
			}
		}
	}
	// Pre flags after the first non-pre write do not count
	seenNonPre := false
	for _, w := range sc.Writes {
		if !w.Pre {
			seenNonPre = true
		}
		if seenNonPre && (w.What == "coll" || w.What == "colltomb") {
			allPre[w.Coll] = false
		}
	}
	groups := map[string][]int64{}
	for _, id := range order {
		c := colls[id]
		if c.states[len(c.states)-1] == -1 {
			continue // tombstoned: not listed
		}
		k := fmt.Sprintf("%d/%s", c.db, c.name)
		groups[k] = append(groups[k], id)
	}
	droppedIDs := map[int64]bool{}
	for _, x := range calls {
		if x.Kind == "dropped_coll" {
			for _, id := range x.IDs {
				droppedIDs[id] = true
			}
		}
	}
	for k, ids := range groups {
		if len(ids) < 2 {
			continue
		}
		stable := true
		for _, id := range ids {
			if !allPre[id] {
				stable = false
			}
		}
		if !stable {
			continue
		}
		newest := ids[0]
		for _, id := range ids {
			if createTs[id] > createTs[newest] {
				newest = id
			}
		}
		owner := false
		for _, tk := range sc.Tasks {
			if selected(tk.ID, colls[newest].db) {
				owner = true
			}
		}
		if !owner {
			continue
		}
		for _, id := range ids {
			if id == newest {
				continue
			}
			if len(startsOf(id)) > 0 {
				s.Violate("C13", "older_incarnation_started", "name %s has incarnations %v; %d is not the newest (%d) but its replication was started", k, ids, id, newest)
			}
			if !droppedIDs[id] {
				s.Violate("C13", "older_incarnation_not_recorded", "name %s has incarnations %v; the older incarnation %d was not recorded as dropped", k, ids, id)
			}
		}
		if len(ids) >= 3 {
			s.Probe("three_incarnations_of_a_name")
		}
		s.Probe("repeated_name")
	}
}
