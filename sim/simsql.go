package sim

import (
	"context"
	"database/sql"
	"database/sql/driver"
	"encoding/json"
	"errors"
	"fmt"
	"io"
	"os"
	"regexp"
	"sort"
	"strings"
	"sync"
)

// SimSQL is a database/sql driver that executes exactly the statement shapes
// the MySQL metadata stores issue. Anything else is ErrSimSQLUnknown, which the
// rigs treat as a harness error, never as a verdict.
//
// Semantics kept from MySQL: INSERT ... ON DUPLICATE KEY UPDATE on the primary
// key, LIKE with % _ and \ escape, DELETE with AND-ed equality predicates,
// transactions with a private copy made at BEGIN and swapped in at COMMIT.
// String comparison is byte-exact (generators never produce identifiers that
// differ only in case or trailing blanks).
type SimSQL struct {
	mu     sync.Mutex
	Tables map[string]*sqlTable
	Gate   Gate
	Name   string
	Unk    []string // statements not recognised (harness error if non-empty)
}

type sqlTable struct {
	Cols []string
	PK   string
	Rows map[string]map[string]any // pk -> col -> value
}

var ErrSimSQLUnknown = errors.New("sim: statement not modelled")
var ErrSimSQL = errors.New("sim: Error 1205 (HY000): Lock wait timeout exceeded")

var simSQLSeq int
var simSQLMu sync.Mutex

// Open registers a fresh driver instance and returns a *sql.DB on it.
func (s *SimSQL) Open() *sql.DB {
	simSQLMu.Lock()
	simSQLSeq++
	name := fmt.Sprintf("simsql-%d", simSQLSeq)
	simSQLMu.Unlock()
	sql.Register(name, &simDriver{s: s})
	db, err := sql.Open(name, "sim")
	if err != nil {
		panic(err)
	}
	db.SetMaxOpenConns(4)
	return db
}

func NewSimSQL(name string, gate Gate) *SimSQL {
	return &SimSQL{Tables: map[string]*sqlTable{}, Gate: gate, Name: name}
}

func (s *SimSQL) gate(ctx context.Context, key string) Outcome {
	if s.Gate == nil {
		return Outcome{}
	}
	return s.Gate(ctx, "store", s.Name+":"+key)
}

// Dump returns table -> pk -> column -> value (strings / int64).
func (s *SimSQL) Dump() map[string]map[string]map[string]any {
	s.mu.Lock()
	defer s.mu.Unlock()
	return cloneTables(s.Tables, true)
}

// LoadRows restores rows dumped by Dump (after a JSON round trip) into tables
// that already exist (the stores create them on construction).
func (s *SimSQL) LoadRows(d map[string]map[string]map[string]any) {
	s.mu.Lock()
	defer s.mu.Unlock()
	for n, rows := range d {
		t := s.Tables[n]
		if t == nil {
			continue
		}
		for pk, r := range rows {
			rr := map[string]any{}
			for c, v := range r {
				switch x := v.(type) {
				case json.Number:
					i, _ := x.Int64()
					rr[c] = i
				case float64:
					rr[c] = int64(x)
				default:
					rr[c] = v
				}
			}
			t.Rows[pk] = rr
		}
	}
}

func cloneTables(ts map[string]*sqlTable, plain bool) map[string]map[string]map[string]any {
	out := map[string]map[string]map[string]any{}
	for n, t := range ts {
		out[n] = map[string]map[string]any{}
		for pk, r := range t.Rows {
			rr := map[string]any{}
			for c, v := range r {
				rr[c] = v
			}
			out[n][pk] = rr
		}
	}
	return out
}

func copyTables(ts map[string]*sqlTable) map[string]*sqlTable {
	out := map[string]*sqlTable{}
	for n, t := range ts {
		nt := &sqlTable{Cols: t.Cols, PK: t.PK, Rows: map[string]map[string]any{}}
		for pk, r := range t.Rows {
			rr := map[string]any{}
			for c, v := range r {
				rr[c] = v
			}
			nt.Rows[pk] = rr
		}
		out[n] = nt
	}
	return out
}

type simDriver struct{ s *SimSQL }

func (d *simDriver) Open(name string) (driver.Conn, error) { return &simConn{s: d.s}, nil }

type simConn struct {
	s     *SimSQL
	tx    map[string]*sqlTable // private copy while in a transaction (read-your-writes)
	txOps []txOp               // the transaction's writes, re-applied to the shared tables at COMMIT
}

type txOp struct {
	q    string
	args []driver.Value
}

func (c *simConn) Prepare(q string) (driver.Stmt, error) { return &simStmt{c: c, q: q}, nil }
func (c *simConn) Close() error                          { return nil }
func (c *simConn) Begin() (driver.Tx, error) {
	return c.BeginTx(context.Background(), driver.TxOptions{})
}

func (c *simConn) BeginTx(ctx context.Context, opts driver.TxOptions) (driver.Tx, error) {
	o := c.s.gate(ctx, "begin")
	if o.CtxErr != nil {
		return nil, o.CtxErr
	}
	if o.Fault != "" {
		return nil, ErrSimSQL
	}
	c.s.mu.Lock()
	c.tx = copyTables(c.s.Tables)
	c.s.mu.Unlock()
	return &simTx{c: c}, nil
}

func (c *simConn) Ping(ctx context.Context) error { return nil }

type simTx struct{ c *simConn }

func (t *simTx) Commit() error {
	c := t.c
	o := c.s.gate(context.Background(), "commit")
	if o.Fault == "store_err_before" {
		c.tx, c.txOps = nil, nil
		return ErrSimSQL
	}
	// row-level effect: the writes of the transaction are applied to the current tables, so writes other
	// connections made to other rows meanwhile survive (as under InnoDB)
	ops := c.txOps
	c.tx, c.txOps = nil, nil
	for _, op := range ops {
		if _, err := c.execApply(op.q, op.args); err != nil {
			return err
		}
	}
	if o.Fault == "store_err_after" {
		return ErrSimSQL
	}
	return nil
}

func (t *simTx) Rollback() error {
	t.c.tx, t.c.txOps = nil, nil
	return nil
}

type simStmt struct {
	c *simConn
	q string
}

func (s *simStmt) Close() error  { return nil }
func (s *simStmt) NumInput() int { return strings.Count(s.q, "?") }
func (s *simStmt) Exec(args []driver.Value) (driver.Result, error) {
	return s.c.exec(context.Background(), s.q, args)
}
func (s *simStmt) Query(args []driver.Value) (driver.Rows, error) {
	return s.c.query(context.Background(), s.q, args)
}
func (s *simStmt) ExecContext(ctx context.Context, nargs []driver.NamedValue) (driver.Result, error) {
	return s.c.exec(ctx, s.q, unnamed(nargs))
}
func (s *simStmt) QueryContext(ctx context.Context, nargs []driver.NamedValue) (driver.Rows, error) {
	return s.c.query(ctx, s.q, unnamed(nargs))
}

func unnamed(n []driver.NamedValue) []driver.Value {
	out := make([]driver.Value, len(n))
	for i, v := range n {
		out[i] = v.Value
	}
	return out
}

func (c *simConn) ExecContext(ctx context.Context, q string, nargs []driver.NamedValue) (driver.Result, error) {
	return c.exec(ctx, q, unnamed(nargs))
}

func (c *simConn) QueryContext(ctx context.Context, q string, nargs []driver.NamedValue) (driver.Rows, error) {
	return c.query(ctx, q, unnamed(nargs))
}

var (
	reWS     = regexp.MustCompile(`\s+`)
	reCreate = regexp.MustCompile(`(?i)^CREATE TABLE IF NOT EXISTS (\w+) \((.*)\)$`)
	reInsert = regexp.MustCompile(`(?i)^INSERT INTO (\w+) \(([^)]*)\) VALUES \(([?, ]*)\) ON DUPLICATE KEY UPDATE (.*)$`)
	reSelect = regexp.MustCompile(`(?i)^SELECT (.*?) FROM (\w+) WHERE (.*)$`)
	reDelete = regexp.MustCompile(`(?i)^DELETE FROM (\w+) WHERE (.*)$`)
	reLike   = regexp.MustCompile(`(?i)^(\w+) LIKE '((?:[^'\\]|\\.)*)'$`)
	reEq     = regexp.MustCompile(`(?i)^(\w+) = \?$`)
)

func norm(q string) string { return strings.TrimSpace(reWS.ReplaceAllString(q, " ")) }

func (c *simConn) tables() map[string]*sqlTable {
	if c.tx != nil {
		return c.tx
	}
	return c.s.Tables
}

type simResult struct{ n int64 }

func (r simResult) LastInsertId() (int64, error) { return 0, nil }
func (r simResult) RowsAffected() (int64, error) { return r.n, nil }

func (c *simConn) unknown(q string) error {
	c.s.mu.Lock()
	c.s.Unk = append(c.s.Unk, q)
	c.s.mu.Unlock()
	fmt.Fprintln(os.Stderr, "verif: SimSQL statement not modelled:", q)
	return fmt.Errorf("%w: %s", ErrSimSQLUnknown, q)
}

func (c *simConn) exec(ctx context.Context, q string, args []driver.Value) (driver.Result, error) {
	q = norm(q)
	if m := reCreate.FindStringSubmatch(q); m != nil {
		c.s.mu.Lock()
		defer c.s.mu.Unlock()
		ts := c.tables()
		if ts[m[1]] == nil {
			t := &sqlTable{Rows: map[string]map[string]any{}}
			for _, part := range strings.Split(m[2], ",") {
				f := strings.Fields(strings.TrimSpace(part))
				if len(f) == 0 {
					continue
				}
				up := strings.ToUpper(f[0])
				if up == "PRIMARY" {
					t.PK = strings.Trim(f[2], "()")
					continue
				}
				if up == "INDEX" {
					continue
				}
				t.Cols = append(t.Cols, f[0])
			}
			ts[m[1]] = t
		}
		return simResult{0}, nil
	}
	kind := "exec"
	gk := kind + ":" + firstWords(q, 3)
	if len(args) > 0 {
		gk += ":" + fmt.Sprint(normVal(args[0]))
	}
	o := c.s.gate(ctx, gk)
	if o.CtxErr != nil {
		return nil, o.CtxErr
	}
	if o.Fault == "store_err_before" {
		return nil, ErrSimSQL
	}
	res, err := c.execApply(q, args)
	if err != nil {
		return nil, err
	}
	if c.tx != nil {
		c.txOps = append(c.txOps, txOp{q, args})
	}
	if o.Fault == "store_err_after" {
		return nil, ErrSimSQL
	}
	return res, nil
}

func firstWords(q string, n int) string {
	f := strings.Fields(q)
	if len(f) > n {
		f = f[:n]
	}
	return strings.Join(f, " ")
}

func (c *simConn) execApply(q string, args []driver.Value) (driver.Result, error) {
	c.s.mu.Lock()
	defer c.s.mu.Unlock()
	ts := c.tables()
	if m := reInsert.FindStringSubmatch(q); m != nil {
		t := ts[m[1]]
		if t == nil {
			return nil, fmt.Errorf("sim: Error 1146: Table '%s' doesn't exist", m[1])
		}
		cols := splitTrim(m[2])
		nvals := strings.Count(m[3], "?")
		if nvals != len(cols) {
			return nil, c.unknownLocked(q)
		}
		upd := splitTrim(m[4])
		if len(args) != nvals+len(upd) {
			return nil, c.unknownLocked(q)
		}
		row := map[string]any{}
		for i, col := range cols {
			row[col] = normVal(args[i])
		}
		pk := fmt.Sprint(row[t.PK])
		if old, ok := t.Rows[pk]; ok {
			for i, u := range upd {
				mm := reEq.FindStringSubmatch(u)
				if mm == nil {
					return nil, c.unknownLocked(q)
				}
				old[mm[1]] = normVal(args[nvals+i])
			}
			return simResult{2}, nil
		}
		t.Rows[pk] = row
		return simResult{1}, nil
	}
	if m := reDelete.FindStringSubmatch(q); m != nil {
		t := ts[m[1]]
		if t == nil {
			return nil, fmt.Errorf("sim: Error 1146: Table '%s' doesn't exist", m[1])
		}
		pred, err := parseWhere(m[2], args)
		if err != nil {
			return nil, c.unknownLocked(q)
		}
		n := int64(0)
		for pk, r := range t.Rows {
			if pred(r) {
				delete(t.Rows, pk)
				n++
			}
		}
		return simResult{n}, nil
	}
	return nil, c.unknownLocked(q)
}

func (c *simConn) unknownLocked(q string) error {
	c.s.Unk = append(c.s.Unk, q)
	return fmt.Errorf("%w: %s", ErrSimSQLUnknown, q)
}

func splitTrim(s string) []string {
	var out []string
	for _, p := range strings.Split(s, ",") {
		out = append(out, strings.TrimSpace(p))
	}
	return out
}

func normVal(v driver.Value) any {
	switch x := v.(type) {
	case []byte:
		return string(x)
	case int:
		return int64(x)
	}
	return v
}

// parseWhere handles: <col> LIKE '<lit>' and <col> = ? joined by AND.
func parseWhere(w string, args []driver.Value) (func(map[string]any) bool, error) {
	parts := splitAnd(w)
	var preds []func(map[string]any) bool
	ai := 0
	for _, p := range parts {
		p = strings.TrimSpace(p)
		if m := reLike.FindStringSubmatch(p); m != nil {
			col, pat := m[1], m[2]
			preds = append(preds, func(r map[string]any) bool { return likeMatch(pat, fmt.Sprint(r[col])) })
			continue
		}
		if m := reEq.FindStringSubmatch(p); m != nil {
			if ai >= len(args) {
				return nil, errors.New("args")
			}
			col, val := m[1], normVal(args[ai])
			ai++
			preds = append(preds, func(r map[string]any) bool { return fmt.Sprint(r[col]) == fmt.Sprint(val) })
			continue
		}
		return nil, errors.New("unsupported predicate: " + p)
	}
	if ai != len(args) {
		return nil, errors.New("args")
	}
	return func(r map[string]any) bool {
		for _, p := range preds {
			if !p(r) {
				return false
			}
		}
		return true
	}, nil
}

// splitAnd splits on " AND " outside of quotes.
func splitAnd(w string) []string {
	var out []string
	inq := false
	last := 0
	for i := 0; i < len(w); i++ {
		if w[i] == '\\' && inq {
			i++
			continue
		}
		if w[i] == '\'' {
			inq = !inq
		}
		if !inq && strings.HasPrefix(strings.ToUpper(w[i:]), " AND ") {
			out = append(out, w[last:i])
			last = i + 5
			i += 4
		}
	}
	out = append(out, w[last:])
	return out
}

// likeMatch implements MySQL LIKE on the string-literal text pat (escape
// sequences of the literal and of LIKE are both backslash based: \% \_ \\).
func likeMatch(pat, s string) bool {
	// first the string literal level: \\ -> \, \' -> ', \% and \_ stay as they are
	var lit []rune
	rs := []rune(pat)
	for i := 0; i < len(rs); i++ {
		if rs[i] == '\\' && i+1 < len(rs) {
			n := rs[i+1]
			if n == '%' || n == '_' {
				lit = append(lit, '\\', n)
			} else if n == '\\' {
				lit = append(lit, '\\', '\\')
			} else {
				lit = append(lit, n)
			}
			i++
			continue
		}
		lit = append(lit, rs[i])
	}
	return likeRunes(lit, []rune(s))
}

func likeRunes(p, s []rune) bool {
	for len(p) > 0 {
		switch p[0] {
		case '%':
			for i := 0; i <= len(s); i++ {
				if likeRunes(p[1:], s[i:]) {
					return true
				}
			}
			return false
		case '_':
			if len(s) == 0 {
				return false
			}
			p, s = p[1:], s[1:]
		case '\\':
			if len(p) >= 2 {
				if len(s) == 0 || s[0] != p[1] {
					return false
				}
				p, s = p[2:], s[1:]
				continue
			}
			fallthrough
		default:
			if len(s) == 0 || s[0] != p[0] {
				return false
			}
			p, s = p[1:], s[1:]
		}
	}
	return len(s) == 0
}

func (c *simConn) query(ctx context.Context, q string, args []driver.Value) (driver.Rows, error) {
	q = norm(q)
	qkey := "query:" + firstWords(q, 4)
	if m := reSelect.FindStringSubmatch(q); m != nil && len(args) > 0 {
		// name the addressed row(s): table and the bound values (task id, collection id, ...)
		var as []string
		for _, a := range args {
			as = append(as, fmt.Sprint(a))
		}
		qkey += ":" + m[2] + ":" + strings.Join(as, "/")
	}
	o := c.s.gate(ctx, qkey)
	if o.CtxErr != nil {
		return nil, o.CtxErr
	}
	if o.Fault != "" {
		return nil, ErrSimSQL
	}
	c.s.mu.Lock()
	defer c.s.mu.Unlock()
	m := reSelect.FindStringSubmatch(q)
	if m == nil {
		return nil, c.unknownLocked(q)
	}
	t := c.tables()[m[2]]
	if t == nil {
		return nil, fmt.Errorf("sim: Error 1146: Table '%s' doesn't exist", m[2])
	}
	cols := splitTrim(m[1])
	pred, err := parseWhere(m[3], args)
	if err != nil {
		return nil, c.unknownLocked(q)
	}
	var pks []string
	for pk, r := range t.Rows {
		if pred(r) {
			pks = append(pks, pk)
		}
	}
	sort.Strings(pks) // primary-key order, as an InnoDB scan returns
	rows := &simRows{cols: cols}
	for _, pk := range pks {
		var vals []driver.Value
		for _, cn := range cols {
			v := t.Rows[pk][cn]
			if s, ok := v.(string); ok {
				vals = append(vals, []byte(s))
			} else {
				vals = append(vals, v)
			}
		}
		rows.data = append(rows.data, vals)
	}
	return rows, nil
}

type simRows struct {
	cols []string
	data [][]driver.Value
	i    int
}

func (r *simRows) Columns() []string { return r.cols }
func (r *simRows) Close() error      { return nil }
func (r *simRows) Next(dest []driver.Value) error {
	if r.i >= len(r.data) {
		return io.EOF
	}
	copy(dest, r.data[r.i])
	r.i++
	return nil
}
