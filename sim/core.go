// Package sim is the deterministic simulator for milvus-cdc: one synctest
// bubble per OS process, every seam call parked and released one at a time by
// a scheduler that draws every choice from one seeded tape.
package sim

import (
	"context"
	"crypto/sha256"
	"encoding/hex"
	"encoding/json"
	"fmt"
	"os"
	"runtime"
	"sort"
	"strings"
	"sync"
	"sync/atomic"
	"testing"
	"testing/synctest"
	"time"
)

// ---------------------------------------------------------------- PRNG

// Rng is splitmix64; the only source of randomness in the harness.
type Rng struct{ s uint64 }

func NewRng(seed uint64) *Rng { return &Rng{s: seed*0x9E3779B97F4A7C15 + 0x1234567} }

func (r *Rng) Next() uint64 {
	r.s += 0x9E3779B97F4A7C15
	z := r.s
	z = (z ^ (z >> 30)) * 0xBF58476D1CE4E5B9
	z = (z ^ (z >> 27)) * 0x94D049BB133111EB
	return z ^ (z >> 31)
}

func (r *Rng) Intn(n int) int {
	if n <= 1 {
		return 0
	}
	return int(r.Next() % uint64(n))
}

// Range returns a value in [lo, hi].
func (r *Rng) Range(lo, hi int) int { return lo + r.Intn(hi-lo+1) }
func (r *Rng) Bool() bool           { return r.Next()&1 == 1 }
func (r *Rng) Pct(p int) bool       { return r.Intn(100) < p }
func (r *Rng) Fork() *Rng           { return NewRng(r.Next()) }
func Pick[T any](r *Rng, xs []T) T  { return xs[r.Intn(len(xs))] }
func Shuffle[T any](r *Rng, xs []T) {
	for i := len(xs) - 1; i > 0; i-- {
		j := r.Intn(i + 1)
		xs[i], xs[j] = xs[j], xs[i]
	}
}

// ---------------------------------------------------------------- tape

// Tape is the sequence of adaptive scheduler choices. In generate mode values
// come from the PRNG and are recorded; in replay mode they are read back and
// an exhausted tape yields zeros (the first enabled action).
type Tape struct {
	Rec    []uint32
	pos    int
	rng    *Rng
	replay bool
}

func NewTape(rng *Rng, fixed []uint32, replay bool) *Tape {
	if replay {
		return &Tape{Rec: fixed, replay: true}
	}
	return &Tape{rng: rng}
}

func (t *Tape) Choose(n int) int {
	if n <= 1 {
		// still consume a slot so that structural edits keep alignment cheap
		if t.replay {
			if t.pos < len(t.Rec) {
				t.pos++
			}
		} else {
			t.Rec = append(t.Rec, 0)
			t.pos = len(t.Rec)
		}
		return 0
	}
	if t.replay {
		if t.pos >= len(t.Rec) {
			return 0
		}
		v := int(t.Rec[t.pos]) % n
		t.pos++
		return v
	}
	v := t.rng.Intn(n)
	t.Rec = append(t.Rec, uint32(v))
	t.pos = len(t.Rec)
	return v
}

// ---------------------------------------------------------------- plan / result

// Plan is the replay file: everything a run depends on.
type Plan struct {
	Rig     string          `json:"rig"`
	Prop    string          `json:"prop"`
	Variant string          `json:"variant,omitempty"`
	Seed    uint64          `json:"seed"`
	Tier    string          `json:"tier,omitempty"`
	Script  json.RawMessage `json:"script,omitempty"` // rig specific; absent => generated from Seed
	Tape    []uint32        `json:"tape,omitempty"`
	Replay  bool            `json:"replay,omitempty"` // Tape is authoritative
	// multi-incarnation runs (rig S): the child loads/saves the external world here
	Incarnation int    `json:"incarnation,omitempty"`
	StateIn     string `json:"state_in,omitempty"`
	StateOut    string `json:"state_out,omitempty"`
	TapePos     int    `json:"tape_pos,omitempty"`
	Expect      string `json:"expect,omitempty"` // expected violation signature "Cxx/rule"
	LogLevel    string `json:"log_level,omitempty"`
}

type Violation struct {
	Property string `json:"property"`
	Rule     string `json:"rule"`
	Detail   string `json:"detail"`
	Step     int    `json:"step"`
}

func (v Violation) Sig() string { return v.Property + "/" + v.Rule }

type Result struct {
	Status     string         `json:"status"` // ok | violation | crash_continue | harness_error | hang
	Violations []Violation    `json:"violations,omitempty"`
	Harness    string         `json:"harness,omitempty"`
	Stats      map[string]int `json:"stats"`  // fault kinds fired, counters
	Probes     map[string]int `json:"probes"` // non-triviality probes
	Steps      int            `json:"steps"`
	SimMillis  int64          `json:"sim_ms"`
	LogHash    string         `json:"log_hash"`
	SchedSig   string         `json:"sched_sig"` // hash of choices at steps with >=2 enabled actions
	Branching  int            `json:"branching"` // number of steps with >=2 enabled actions
	Plan       *Plan          `json:"plan"`      // full plan incl. generated script and tape
	Log        []string       `json:"log,omitempty"`
	Sample     any            `json:"sample,omitempty"`
	Real       []string       `json:"real,omitempty"`
	Stub       []string       `json:"stub,omitempty"`
	TapePos    int            `json:"tape_pos,omitempty"`
}

// ---------------------------------------------------------------- Sim

type Outcome struct {
	Fault  string // "" = ok
	CtxErr error  // caller context finished while parked
}

type Call struct {
	Kind    string // fault class of the call: "tq" (target query), "reg", "dw" (downstream write), "ddl", "store", "yield"...
	Key     string // canonical content key
	Seq     int
	release chan Outcome
	Info    any
}

func (c *Call) ID() string { return fmt.Sprintf("%s|%s#%d", c.Kind, c.Key, c.Seq) }

type Action struct {
	Key    string
	Weight int
	Run    func()
}

type Sim struct {
	T      *testing.T
	Plan   *Plan
	Rng    *Rng // generation only (outside the schedule)
	Tape   *Tape
	Start  time.Time
	mu     sync.Mutex
	parked map[string]*Call
	keySeq map[string]int
	side   []string // side events of the current step (sorted at step end)

	Log       []string
	Step      int
	stepCtr   atomic.Int64 // watchdog
	Stats     map[string]int
	Probes    map[string]int
	Viol      []Violation
	sched     []string
	Branching int
	KeepLog   bool
	phase     atomic.Value // string, for the watchdog
	// FaultBudget[kind] = how many more faults of that kind may be injected
	FaultBudget map[string]int
	FaultWeight int // weight of a fault action relative to OkWeight
	OkWeight    int
	Draining    bool
	OnRelease   func(c *Call, o Outcome) // observation hook, called by the scheduler before a parked call resumes
	cbLog       []cbRec
	// OnCtxDone, when set, is told about a parked call whose caller gave up (context deadline / cancellation): the call was never applied
	OnCtxDone func(c *Call)
}

func NewSim(t *testing.T, plan *Plan) *Sim {
	s := &Sim{
		T: t, Plan: plan,
		Rng:         NewRng(plan.Seed),
		parked:      map[string]*Call{},
		keySeq:      map[string]int{},
		Stats:       map[string]int{},
		Probes:      map[string]int{},
		FaultBudget: map[string]int{},
		FaultWeight: 1, OkWeight: 6,
		KeepLog: true,
	}
	s.Tape = NewTape(NewRng(plan.Seed^0xA5A5A5A5DEADBEEF^(uint64(plan.Incarnation)*0x9E3779B1)), plan.Tape, plan.Replay)
	if plan.Replay {
		s.Tape.pos = plan.TapePos
	} else if plan.Incarnation > 0 {
		// a later incarnation of a generated run: keep the choices made so far, go on generating
		s.Tape.Rec = append([]uint32(nil), plan.Tape[:min(plan.TapePos, len(plan.Tape))]...)
		s.Tape.pos = len(s.Tape.Rec)
	}
	s.phase.Store("init")
	return s
}

// Side records an event produced by repo code crossing a non-parking seam; the
// events of one step are sorted before they enter the log.
func (s *Sim) Side(format string, a ...any) {
	s.mu.Lock()
	s.side = append(s.side, fmt.Sprintf(format, a...))
	s.mu.Unlock()
}

func (s *Sim) Probe(name string) {
	s.mu.Lock()
	s.Probes[name]++
	s.mu.Unlock()
}

func (s *Sim) Stat(name string) {
	s.mu.Lock()
	s.Stats[name]++
	s.mu.Unlock()
}

// Violate records a violation (first one per rule kept; detail of the first).
func (s *Sim) Violate(prop, rule, format string, a ...any) {
	s.mu.Lock()
	defer s.mu.Unlock()
	for _, v := range s.Viol {
		if v.Property == prop && v.Rule == rule {
			return
		}
	}
	s.Viol = append(s.Viol, Violation{Property: prop, Rule: rule, Detail: fmt.Sprintf(format, a...), Step: s.Step})
}

// Park blocks the calling (repo) goroutine until the scheduler releases it.
// It must never be called with a repo lock held.
func (s *Sim) Park(ctx context.Context, kind, key string, info any) Outcome {
	s.mu.Lock()
	k := kind + "|" + key
	seq := s.keySeq[k]
	s.keySeq[k] = seq + 1
	c := &Call{Kind: kind, Key: key, Seq: seq, release: make(chan Outcome, 1), Info: info}
	s.parked[c.ID()] = c
	s.mu.Unlock()
	var done <-chan struct{}
	if ctx != nil {
		done = ctx.Done()
	}
	select {
	case o := <-c.release:
		return o
	case <-done:
		s.mu.Lock()
		delete(s.parked, c.ID())
		s.side = append(s.side, "ctxdone "+c.ID())
		s.mu.Unlock()
		if s.OnCtxDone != nil {
			s.OnCtxDone(c)
		}
		return Outcome{CtxErr: ctx.Err()}
	}
}

func (s *Sim) Parked() []*Call {
	s.mu.Lock()
	defer s.mu.Unlock()
	out := make([]*Call, 0, len(s.parked))
	for _, c := range s.parked {
		out = append(out, c)
	}
	sort.Slice(out, func(i, j int) bool { return out[i].ID() < out[j].ID() })
	return out
}

func (s *Sim) release(c *Call, o Outcome) {
	s.mu.Lock()
	_, ok := s.parked[c.ID()]
	delete(s.parked, c.ID())
	s.mu.Unlock()
	if ok {
		if s.OnRelease != nil {
			s.OnRelease(c, o)
		}
		c.release <- o
	}
}

// ReleaseActions turns parked calls into actions: one "ok" release per call and,
// for every fault outcome the rig allows for that call (faultsFor) that still
// has budget, one faulty release.
func (s *Sim) ReleaseActions(faultsFor func(c *Call) []string) []Action {
	var acts []Action
	for _, c := range s.Parked() {
		c := c
		w := s.OkWeight
		if c.Kind == "yield" {
			w = s.OkWeight / 2
			if w == 0 {
				w = 1
			}
		}
		acts = append(acts, Action{Key: "rel:" + c.ID() + ":0ok", Weight: w, Run: func() { s.release(c, Outcome{}) }})
		if s.Draining || faultsFor == nil {
			continue
		}
		for _, f := range faultsFor(c) {
			f := f
			if s.FaultBudget[f] <= 0 {
				continue
			}
			acts = append(acts, Action{Key: "rel:" + c.ID() + ":1" + f, Weight: s.FaultWeight, Run: func() {
				s.FaultBudget[f]--
				s.Stats["fault:"+f]++
				s.release(c, Outcome{Fault: f})
			}})
		}
	}
	return acts
}

func (s *Sim) Now() time.Duration { return time.Since(s.Start) }

var traceLog = os.Getenv("VERIF_TRACE") != ""
var traceActs = os.Getenv("VERIF_ACTS") != "" // debugging aid: list the enabled actions of every step in the event log

func (s *Sim) logf(format string, a ...any) {
	if traceLog {
		fmt.Fprintf(os.Stderr, format+"\n", a...)
	}
	if s.KeepLog {
		s.Log = append(s.Log, fmt.Sprintf(format, a...))
	}
}

func (s *Sim) flushSide() {
	s.mu.Lock()
	side := s.side
	s.side = nil
	s.mu.Unlock()
	sort.Strings(side)
	for _, e := range side {
		s.logf("    . %s", e)
	}
}

// Settle waits until every goroutine of the bubble is durably blocked.
func (s *Sim) Settle() {
	s.stepCtr.Add(1)
	synctest.Wait()
	s.stepCtr.Add(1)
	s.flushSide()
}

// StepOnce picks and runs one of the given actions; returns false if none.
func (s *Sim) StepOnce(acts []Action) bool {
	if len(acts) == 0 {
		return false
	}
	sort.Slice(acts, func(i, j int) bool { return acts[i].Key < acts[j].Key })
	total := 0
	for i := range acts {
		if acts[i].Weight <= 0 {
			acts[i].Weight = 1
		}
		total += acts[i].Weight
	}
	v := s.Tape.Choose(total)
	idx := 0
	for i := range acts {
		if v < acts[i].Weight {
			idx = i
			break
		}
		v -= acts[i].Weight
	}
	a := acts[idx]
	if len(acts) >= 2 {
		s.Branching++
		s.sched = append(s.sched, a.Key)
	}
	if traceActs {
		ks := make([]string, len(acts))
		for i := range acts {
			ks[i] = acts[i].Key
		}
		s.logf("     enabled: %s", strings.Join(ks, "  "))
	}
	s.logf("%04d t=%dms [%d] %s", s.Step, s.Now().Milliseconds(), len(acts), a.Key)
	s.Step++
	s.Tick()
	a.Run()
	return true
}

// Tick moves the simulated clock by one microsecond. Done once per scheduler
// step so that timers armed in different steps never expire at the same
// simulated instant (same-instant wake-ups would run concurrently, in an order
// the simulator does not own).
func (s *Sim) Tick() { time.Sleep(time.Microsecond) }

// Advance lets simulated time flow by d (timers fire in order meanwhile).
func (s *Sim) Advance(d time.Duration) {
	s.stepCtr.Add(1)
	time.Sleep(d)
	s.stepCtr.Add(1)
}

func (s *Sim) SetPhase(p string) { s.phase.Store(p) }

func hashLines(lines []string) string {
	h := sha256.New()
	for _, l := range lines {
		h.Write([]byte(l))
		h.Write([]byte{'\n'})
	}
	return hex.EncodeToString(h.Sum(nil))[:16]
}

func (s *Sim) Result(status string) *Result {
	s.flushSide()
	r := &Result{Status: status, Violations: s.Viol, Stats: s.Stats, Probes: s.Probes, Steps: s.Step,
		SimMillis: s.Now().Milliseconds(), LogHash: hashLines(s.Log), SchedSig: hashLines(s.sched), Branching: s.Branching,
		TapePos: s.Tape.pos}
	if len(s.Viol) > 0 && status == "ok" {
		r.Status = "violation"
	}
	p := *s.Plan
	if !p.Replay {
		p.Tape = s.Tape.Rec
	}
	r.Plan = &p
	if os.Getenv("VERIF_KEEPLOG") != "" || len(s.Viol) > 0 {
		r.Log = s.Log
	}
	return r
}

// ---------------------------------------------------------------- child plumbing

func WriteResult(r *Result) {
	path := os.Getenv("VERIF_OUT")
	b, _ := json.Marshal(r)
	if path == "" {
		fmt.Println(string(b))
		return
	}
	tmp := path + ".tmp"
	if err := os.WriteFile(tmp, b, 0o644); err != nil {
		fmt.Fprintln(os.Stderr, "verif: cannot write result:", err)
		os.Exit(2)
	}
	_ = os.Rename(tmp, path)
}

func HarnessFail(plan *Plan, format string, a ...any) {
	r := &Result{Status: "harness_error", Harness: fmt.Sprintf(format, a...), Plan: plan, Stats: map[string]int{}, Probes: map[string]int{}}
	WriteResult(r)
	os.Exit(2)
}

func LoadPlan() *Plan {
	path := os.Getenv("VERIF_PLAN")
	if path == "" {
		fmt.Fprintln(os.Stderr, "verif: VERIF_PLAN not set")
		os.Exit(2)
	}
	b, err := os.ReadFile(path)
	if err != nil {
		fmt.Fprintln(os.Stderr, "verif:", err)
		os.Exit(2)
	}
	var p Plan
	if err := json.Unmarshal(b, &p); err != nil {
		fmt.Fprintln(os.Stderr, "verif: bad plan:", err)
		os.Exit(2)
	}
	return &p
}

// Watchdog runs outside the bubble: if the simulator makes no progress for
// `limit` of wall time it classifies the hang from goroutine dumps and exits.
// A goroutine with a milvus-cdc frame that is runnable/running with the same
// top repo frame in three dumps is a busy loop in repo code (exit 5, reported by
// the parent under the property that forbids busy background work); anything
// else is a harness problem (exit 2).
func StartWatchdog(s *Sim, limit time.Duration) {
	go func() {
		last := s.stepCtr.Load()
		lastChange := time.Now()
		for {
			time.Sleep(200 * time.Millisecond)
			cur := s.stepCtr.Load()
			if cur != last {
				last = cur
				lastChange = time.Now()
				continue
			}
			if time.Since(lastChange) < limit {
				continue
			}
			busy := classifyHang()
			r := s.resultUnsafe("hang")
			if busy != "" {
				r.Status = "busy_loop"
				r.Harness = busy
				WriteResult(r)
				os.Exit(5)
			}
			buf := make([]byte, 1<<20)
			n := runtime.Stack(buf, true)
			r.Harness = "no progress; phase=" + fmt.Sprint(s.phase.Load()) + "\n" + string(buf[:n])
			WriteResult(r)
			os.Exit(2)
		}
	}()
}

func (s *Sim) resultUnsafe(status string) *Result {
	// called from the watchdog while the bubble is stuck: avoid touching maps
	// that repo goroutines may be writing; copy under the mutex where possible.
	s.mu.Lock()
	st := map[string]int{}
	for k, v := range s.Stats {
		st[k] = v
	}
	pr := map[string]int{}
	for k, v := range s.Probes {
		pr[k] = v
	}
	viol := append([]Violation(nil), s.Viol...)
	s.mu.Unlock()
	p := *s.Plan
	p.Tape = append([]uint32(nil), s.Tape.Rec...)
	logCopy := append([]string(nil), s.Log...)
	if len(logCopy) > 60 {
		logCopy = logCopy[len(logCopy)-60:]
	}
	return &Result{Status: status, Violations: viol, Stats: st, Probes: pr, Steps: s.Step, Plan: &p, Log: logCopy}
}

func classifyHang() string {
	top := func() map[string]string {
		buf := make([]byte, 4<<20)
		n := runtime.Stack(buf, true)
		res := map[string]string{}
		for _, g := range strings.Split(string(buf[:n]), "\n\n") {
			lines := strings.Split(g, "\n")
			if len(lines) == 0 {
				continue
			}
			hdr := lines[0]
			if !(strings.Contains(hdr, "[running") || strings.Contains(hdr, "[runnable")) {
				continue
			}
			for _, l := range lines[1:] {
				if strings.Contains(l, "github.com/zilliztech/milvus-cdc/") && !strings.HasPrefix(l, "\t") {
					gid := strings.Fields(hdr)[1]
					res[gid] = strings.TrimSpace(l)
					break
				}
			}
		}
		return res
	}
	a := top()
	time.Sleep(300 * time.Millisecond)
	b := top()
	time.Sleep(300 * time.Millisecond)
	c := top()
	var hits []string
	for gid, fr := range a {
		if b[gid] == fr && c[gid] == fr {
			// strip argument values so that the frame is stable across runs
			if i := strings.Index(fr, "("); i > 0 {
				fr = fr[:i]
			}
			hits = append(hits, fr)
		}
	}
	sort.Strings(hits)
	if len(hits) == 0 {
		return ""
	}
	return "busy goroutine(s) in repo code: " + strings.Join(dedup(hits), ", ")
}

func dedup(xs []string) []string {
	var out []string
	for i, x := range xs {
		if i == 0 || x != xs[i-1] {
			out = append(out, x)
		}
	}
	return out
}

// SortedKeys returns the keys of m in sorted order.
func SortedInt64Keys[V any](m map[int64]V) []int64 {
	ks := make([]int64, 0, len(m))
	for k := range m {
		ks = append(ks, k)
	}
	sort.Slice(ks, func(i, j int) bool { return ks[i] < ks[j] })
	return ks
}

func SortedKeys[V any](m map[string]V) []string {
	ks := make([]string, 0, len(m))
	for k := range m {
		ks = append(ks, k)
	}
	sort.Strings(ks)
	return ks
}

// SeededHandlerOrder returns the provider for reader.VerifHandlerOrder (hook H16): the permutation depends only on the seed,
// the incarnation and the (collection, partition) announced, not on the order in which concurrent announcements ask.
func SeededHandlerOrder(seed uint64, incarnation int) func(coll, part int64, n int) []int {
	return func(coll, part int64, n int) []int {
		rng := NewRng(seed ^ 0x5ca1ab1e ^ uint64(coll)<<20 ^ uint64(part)*0x9E3779B97F4A7C15 ^ uint64(incarnation)<<44)
		perm := make([]int, n)
		for i := range perm {
			perm[i] = i
		}
		Shuffle(rng, perm)
		return perm
	}
}
