package sim

import (
	"context"
	"encoding/base64"
	"errors"
	"fmt"
	"sort"
	"strings"
	"sync"

	"github.com/milvus-io/milvus-proto/go-api/v2/commonpb"
	"github.com/milvus-io/milvus-proto/go-api/v2/msgpb"
	"github.com/milvus-io/milvus-sdk-go/v2/client"
	"github.com/milvus-io/milvus-sdk-go/v2/entity"
	"github.com/milvus-io/milvus/pkg/mq/msgstream"
	"google.golang.org/protobuf/proto"
)

// SimSDK is the downstream Milvus at the level of the Go SDK client: a catalog
// (databases, collections with ids / vchannels / partitions) and the log of
// acknowledged ReplicateMessage calls. Every call is gated (parked in bubble rigs).
type SimSDK struct {
	mu    sync.Mutex
	Gate  Gate
	State *SDKState
	Clock func() int
	Inc   int // current CDC incarnation (stamped into the ack log)
	// TgtPrefix is the name prefix of downstream pchannels
	TgtPrefix string
	// Note, when set, receives one line per acknowledged write (enters the event log of the run)
	Note func(format string, a ...any)
	// OnReject, when set, is told which collections (by name) a rejected ReplicateMessage call carried data of
	OnReject func(channel string, names []string)
	OnAck    func(channel string)
	OpenMax  func(channel string) int // see Ack.OpenMax
	// OnAckData, when set, is told the end message id and the collections (by name) of an acknowledged pack that carried data
	OnAckData func(channel string, endSeq int, names []string)
}

type SDKPart struct {
	ID int64 `json:"id"`
}

type SDKColl struct {
	DB    string              `json:"db"`
	Name  string              `json:"name"`
	ID    int64               `json:"id"`
	VCh   []string            `json:"vch"`
	Parts map[string]*SDKPart `json:"parts"`
}

type AckMsg struct {
	Type string  `json:"t"`
	Tag  int64   `json:"tag"`
	Rows []int64 `json:"rows,omitempty"`
	Coll int64   `json:"coll,omitempty"`
	Name string  `json:"name,omitempty"`
	Part string  `json:"part,omitempty"`
	Ts   uint64  `json:"ts"`
}

type Ack struct {
	Channel string   `json:"ch"`
	BeginTs uint64   `json:"b"`
	EndTs   uint64   `json:"e"`
	EndSeq  int      `json:"end_seq"`
	Msgs    []AckMsg `json:"msgs"`
	Inc     int      `json:"inc"`
	Step    int      `json:"step"`
	Clock   int      `json:"clock"`
	// OpenMax: the greatest end message id that any stream registration which was open when this pack was acknowledged had
	// handed out for the source channel of this downstream channel (-1: none, or not recorded). A pack whose end id lies
	// above it was computed from an earlier registration (it outlived a stop of its task).
	OpenMax int `json:"open_max"`
}

type DDLRec struct {
	Kind  string `json:"k"`
	DB    string `json:"db"`
	Coll  string `json:"c,omitempty"`
	Part  string `json:"p,omitempty"`
	Inc   int    `json:"inc"`
	Step  int    `json:"step"`
	Clock int    `json:"clock"`
	Err   bool   `json:"err,omitempty"`
	Fault string `json:"fault,omitempty"` // injected outcome: the caller saw an error although Err may be false (applied, then rejected)
}

type SDKState struct {
	DBs    map[string]bool     `json:"dbs"`
	Colls  map[string]*SDKColl `json:"colls"` // db/name
	NextID int64               `json:"next_id"`
	Acks   []Ack               `json:"acks"`
	DDL    []DDLRec            `json:"ddl"`
	Clock  int                 `json:"clock"` // global logical clock across incarnations
}

func NewSDKState() *SDKState {
	// the operator provisions the databases that name mappings point to
	return &SDKState{DBs: map[string]bool{"default": true, "dbx": true, "default2": true, "dbx2": true}, Colls: map[string]*SDKColl{}, NextID: 90000}
}

var errSDK = errors.New("sim: rpc error: code = Unavailable desc = downstream unavailable")

func (w *SimSDK) gate(ctx context.Context, kind, key string) Outcome {
	if w.Gate == nil {
		return Outcome{}
	}
	return w.Gate(ctx, kind, key)
}

func (w *SimSDK) step() int {
	if w.Clock != nil {
		return w.Clock()
	}
	return 0
}

func (w *SimSDK) tick() int {
	w.State.Clock++
	return w.State.Clock
}

// Client returns the SDK client bound to one database.
func (w *SimSDK) Client(db string) client.Client {
	if db == "" {
		db = "default"
	}
	return &simClient{w: w, db: db}
}

type simClient struct {
	client.Client // nil: any method the repository does not use panics (a harness gap, never a verdict)
	w             *SimSDK
	db            string
}

func (c *simClient) Close() error { return nil }

func (c *simClient) query(ctx context.Context, op, coll string, f func() error) error {
	o := c.w.gate(ctx, "tq", fmt.Sprintf("%s:%s/%s", op, c.db, coll))
	if o.CtxErr != nil {
		return o.CtxErr
	}
	if o.Fault != "" {
		return errSDK
	}
	c.w.mu.Lock()
	defer c.w.mu.Unlock()
	return f()
}

func (c *simClient) ddl(ctx context.Context, kind, coll, part string, f func() error) error {
	o := c.w.gate(ctx, "ddl", fmt.Sprintf("%s:%s/%s/%s", kind, c.db, coll, part))
	if o.CtxErr != nil {
		return o.CtxErr
	}
	c.w.mu.Lock()
	defer c.w.mu.Unlock()
	rec := DDLRec{Kind: kind, DB: c.db, Coll: coll, Part: part, Inc: c.w.Inc, Step: c.w.step(), Clock: c.w.tick(), Fault: o.Fault}
	if o.Fault == "ddl_reject_before" {
		rec.Err = true
		c.w.State.DDL = append(c.w.State.DDL, rec)
		return errSDK
	}
	err := f()
	rec.Err = err != nil
	c.w.State.DDL = append(c.w.State.DDL, rec)
	if err != nil {
		return err
	}
	if o.Fault == "ddl_reject_after" {
		return errSDK
	}
	return nil
}

func (c *simClient) dbOK() error {
	if !c.w.State.DBs[c.db] {
		return fmt.Errorf("database not found[database=%s]", c.db)
	}
	return nil
}

func (c *simClient) coll(name string) (*SDKColl, error) {
	if err := c.dbOK(); err != nil {
		return nil, err
	}
	co := c.w.State.Colls[c.db+"/"+name]
	if co == nil {
		return nil, fmt.Errorf("collection not found[database=%s][collection=%s]", c.db, name)
	}
	return co, nil
}

func (c *simClient) ListDatabases(ctx context.Context) ([]entity.Database, error) {
	var out []entity.Database
	err := c.query(ctx, "listdb", "", func() error {
		var names []string
		for n := range c.w.State.DBs {
			names = append(names, n)
		}
		sort.Strings(names)
		for _, n := range names {
			out = append(out, entity.Database{Name: n})
		}
		return nil
	})
	return out, err
}

func (c *simClient) ListCollections(ctx context.Context, opts ...client.ListCollectionOption) ([]*entity.Collection, error) {
	var out []*entity.Collection
	err := c.query(ctx, "listcoll", "", func() error {
		var keys []string
		for k, co := range c.w.State.Colls {
			if co.DB == c.db {
				keys = append(keys, k)
			}
		}
		sort.Strings(keys)
		for _, k := range keys {
			co := c.w.State.Colls[k]
			out = append(out, &entity.Collection{ID: co.ID, Name: co.Name})
		}
		return nil
	})
	return out, err
}

func (c *simClient) DescribeCollection(ctx context.Context, collName string) (*entity.Collection, error) {
	var out *entity.Collection
	err := c.query(ctx, "desc", collName, func() error {
		co, err := c.coll(collName)
		if err != nil {
			return err
		}
		out = &entity.Collection{ID: co.ID, Name: co.Name, VirtualChannels: append([]string(nil), co.VCh...), ShardNum: int32(len(co.VCh))}
		for _, v := range co.VCh {
			out.PhysicalChannels = append(out.PhysicalChannels, physOf(v))
		}
		return nil
	})
	return out, err
}

func (c *simClient) ShowPartitions(ctx context.Context, collName string) ([]*entity.Partition, error) {
	var out []*entity.Partition
	err := c.query(ctx, "showparts", collName, func() error {
		co, err := c.coll(collName)
		if err != nil {
			return err
		}
		var names []string
		for n := range co.Parts {
			names = append(names, n)
		}
		sort.Strings(names)
		for _, n := range names {
			out = append(out, &entity.Partition{ID: co.Parts[n].ID, Name: n})
		}
		return nil
	})
	return out, err
}

func (c *simClient) CreateDatabase(ctx context.Context, dbName string, opts ...client.CreateDatabaseOption) error {
	return c.ddl(ctx, "createdb", dbName, "", func() error { c.w.State.DBs[dbName] = true; return nil })
}
func (c *simClient) DropDatabase(ctx context.Context, dbName string, opts ...client.DropDatabaseOption) error {
	return c.ddl(ctx, "dropdb", dbName, "", func() error { delete(c.w.State.DBs, dbName); return nil })
}
func (c *simClient) AlterDatabase(ctx context.Context, dbName string, attrs ...entity.DatabaseAttribute) error {
	return c.ddl(ctx, "alterdb", dbName, "", func() error {
		if !c.w.State.DBs[dbName] {
			return fmt.Errorf("database not found[database=%s]", dbName)
		}
		return nil
	})
}

func (c *simClient) CreateCollection(ctx context.Context, schema *entity.Schema, shardsNum int32, opts ...client.CreateCollectionOption) error {
	return c.ddl(ctx, "createc", schema.CollectionName, "", func() error {
		if err := c.dbOK(); err != nil {
			return err
		}
		k := c.db + "/" + schema.CollectionName
		if c.w.State.Colls[k] != nil {
			return fmt.Errorf("collection already exist[database=%s][collection=%s]", c.db, schema.CollectionName)
		}
		c.w.State.NextID += 3
		co := &SDKColl{DB: c.db, Name: schema.CollectionName, ID: c.w.State.NextID, Parts: map[string]*SDKPart{}}
		if shardsNum <= 0 {
			shardsNum = 1
		}
		for i := 0; i < int(shardsNum); i++ {
			co.VCh = append(co.VCh, vchan(fmt.Sprintf("%s_%d", c.w.TgtPrefix, i), co.ID, i))
		}
		c.w.State.NextID++
		co.Parts["_default"] = &SDKPart{ID: c.w.State.NextID}
		c.w.State.Colls[k] = co
		return nil
	})
}

func (c *simClient) DropCollection(ctx context.Context, collName string, opts ...client.DropCollectionOption) error {
	return c.ddl(ctx, "dropc", collName, "", func() error {
		delete(c.w.State.Colls, c.db+"/"+collName) // idempotent, as Milvus
		return nil
	})
}

func (c *simClient) CreatePartition(ctx context.Context, collName string, partitionName string, opts ...client.CreatePartitionOption) error {
	return c.ddl(ctx, "createp", collName, partitionName, func() error {
		co, err := c.coll(collName)
		if err != nil {
			return err
		}
		if co.Parts[partitionName] == nil {
			c.w.State.NextID++
			co.Parts[partitionName] = &SDKPart{ID: c.w.State.NextID}
		}
		return nil
	})
}

func (c *simClient) DropPartition(ctx context.Context, collName string, partitionName string, opts ...client.DropPartitionOption) error {
	return c.ddl(ctx, "dropp", collName, partitionName, func() error {
		co, err := c.coll(collName)
		if err != nil {
			return err
		}
		delete(co.Parts, partitionName)
		return nil
	})
}

func (c *simClient) collOnly(ctx context.Context, kind, collName string) error {
	return c.ddl(ctx, kind, collName, "", func() error { _, err := c.coll(collName); return err })
}

func (c *simClient) CreateIndex(ctx context.Context, collName string, fieldName string, idx entity.Index, async bool, opts ...client.IndexOption) error {
	return c.collOnly(ctx, "createidx", collName)
}
func (c *simClient) DropIndex(ctx context.Context, collName string, fieldName string, opts ...client.IndexOption) error {
	return c.collOnly(ctx, "dropidx", collName)
}
func (c *simClient) AlterIndex(ctx context.Context, collName, indexName string, opts ...client.IndexOption) error {
	return c.collOnly(ctx, "alteridx", collName)
}
func (c *simClient) LoadCollection(ctx context.Context, collName string, async bool, opts ...client.LoadCollectionOption) error {
	return c.collOnly(ctx, "loadc", collName)
}
func (c *simClient) ReleaseCollection(ctx context.Context, collName string, opts ...client.ReleaseCollectionOption) error {
	return c.collOnly(ctx, "releasec", collName)
}
func (c *simClient) LoadPartitions(ctx context.Context, collName string, partitionNames []string, async bool, opts ...client.LoadPartitionsOption) error {
	return c.collOnly(ctx, "loadp", collName)
}
func (c *simClient) ReleasePartitions(ctx context.Context, collName string, partitionNames []string, opts ...client.ReleasePartitionsOption) error {
	return c.collOnly(ctx, "releasep", collName)
}
func (c *simClient) Flush(ctx context.Context, collName string, async bool, opts ...client.FlushOption) error {
	return c.collOnly(ctx, "flush", collName)
}
func (c *simClient) rbac(ctx context.Context, kind, who string) error {
	return c.ddl(ctx, kind, who, "", func() error { return nil })
}
func (c *simClient) CreateCredential(ctx context.Context, username string, password string) error {
	return c.rbac(ctx, "createuser", username)
}
func (c *simClient) UpdateCredential(ctx context.Context, username string, oldPassword string, newPassword string) error {
	return c.rbac(ctx, "updateuser", username)
}
func (c *simClient) DeleteCredential(ctx context.Context, username string) error {
	return c.rbac(ctx, "deleteuser", username)
}
func (c *simClient) CreateRole(ctx context.Context, name string) error {
	return c.rbac(ctx, "createrole", name)
}
func (c *simClient) DropRole(ctx context.Context, name string) error {
	return c.rbac(ctx, "droprole", name)
}
func (c *simClient) AddUserRole(ctx context.Context, username string, role string) error {
	return c.rbac(ctx, "adduserrole", username)
}
func (c *simClient) RemoveUserRole(ctx context.Context, username string, role string) error {
	return c.rbac(ctx, "removeuserrole", username)
}
func (c *simClient) Grant(ctx context.Context, role string, objectType entity.PriviledgeObjectType, object string, privilege string, options ...entity.OperatePrivilegeOption) error {
	return c.rbac(ctx, "grant", role)
}
func (c *simClient) Revoke(ctx context.Context, role string, objectType entity.PriviledgeObjectType, object string, privilege string, options ...entity.OperatePrivilegeOption) error {
	return c.rbac(ctx, "revoke", role)
}

var sdkDispatcher = (&msgstream.ProtoUDFactory{}).NewUnmarshalDispatcher()

func (c *simClient) ReplicateMessage(ctx context.Context, channelName string, beginTs, endTs uint64, msgsBytes [][]byte, startPositions, endPositions []*msgpb.MsgPosition, opts ...client.ReplicateMessageOption) (*entity.MessageInfo, error) {
	endSeq := -1
	if len(endPositions) > 0 {
		endSeq = MsgIDToSeq(endPositions[len(endPositions)-1].MsgID)
	}
	first := "tick"
	for _, raw := range msgsBytes {
		hdr := &commonpb.MsgHeader{}
		if err := proto.Unmarshal(raw, hdr); err == nil && hdr.Base != nil && hdr.Base.MsgType != commonpb.MsgType_TimeTick && hdr.Base.MsgType != commonpb.MsgType_Replicate {
			first = fmt.Sprintf("%s%d", hdr.Base.MsgType.String(), hdr.Base.MsgID)
			break
		}
	}
	// the key names the pack (channel, end message id, first data message), so that a fault can stick to one pack
	o := c.w.gate(ctx, "dw", fmt.Sprintf("rm:%s:%d:%s", channelName, endSeq, first))
	if o.CtxErr != nil {
		return nil, o.CtxErr
	}
	if o.Fault != "" {
		if c.w.OnReject != nil {
			var names []string
			for _, raw := range msgsBytes {
				hdr := &commonpb.MsgHeader{}
				if err := proto.Unmarshal(raw, hdr); err != nil || hdr.Base == nil {
					continue
				}
				m, err := sdkDispatcher.Unmarshal(raw, hdr.Base.MsgType)
				if err != nil {
					continue
				}
				switch x := m.(type) {
				case *msgstream.InsertMsg:
					names = append(names, x.CollectionName)
				case *msgstream.DeleteMsg:
					names = append(names, x.CollectionName)
				}
			}
			c.w.OnReject(channelName, names)
		}
		return nil, errSDK
	}
	c.w.mu.Lock()
	defer c.w.mu.Unlock()
	ack := Ack{Channel: channelName, BeginTs: beginTs, EndTs: endTs, Inc: c.w.Inc, Step: c.w.step(), Clock: c.w.tick(), EndSeq: -1, OpenMax: 1 << 30}
	if c.w.OpenMax != nil {
		ack.OpenMax = c.w.OpenMax(channelName)
	}
	if len(endPositions) > 0 {
		ack.EndSeq = MsgIDToSeq(endPositions[len(endPositions)-1].MsgID)
	}
	for _, raw := range msgsBytes {
		hdr := &commonpb.MsgHeader{}
		if err := proto.Unmarshal(raw, hdr); err != nil || hdr.Base == nil {
			ack.Msgs = append(ack.Msgs, AckMsg{Type: "undecodable"})
			continue
		}
		m, err := sdkDispatcher.Unmarshal(raw, hdr.Base.MsgType)
		if err != nil {
			ack.Msgs = append(ack.Msgs, AckMsg{Type: "undecodable:" + hdr.Base.MsgType.String()})
			continue
		}
		am := AckMsg{Type: m.Type().String(), Tag: hdr.Base.MsgID, Ts: m.BeginTs()}
		switch x := m.(type) {
		case *msgstream.InsertMsg:
			am.Type, am.Rows, am.Coll, am.Name, am.Part = "ins", append([]int64(nil), x.RowIDs...), x.CollectionID, x.CollectionName, x.PartitionName
		case *msgstream.DeleteMsg:
			am.Type, am.Coll, am.Name, am.Part = "del", x.CollectionID, x.CollectionName, x.PartitionName
			if ids := x.PrimaryKeys.GetIntId(); ids != nil {
				for _, pk := range ids.Data {
					am.Rows = append(am.Rows, (pk-1)/7)
				}
			}
		case *msgstream.DropPartitionMsg:
			am.Type, am.Coll, am.Name, am.Part = "dropp", x.CollectionID, x.CollectionName, x.PartitionName
		case *msgstream.DropCollectionMsg:
			am.Type, am.Coll, am.Name = "dropc", x.CollectionID, x.CollectionName
		case *msgstream.TimeTickMsg:
			am.Type = "tick"
			am.Ts = x.Base.Timestamp
		case *msgstream.ReplicateMsg:
			am.Type = "rtick"
		}
		ack.Msgs = append(ack.Msgs, am)
	}
	c.w.State.Acks = append(c.w.State.Acks, ack)
	if c.w.OnAck != nil {
		c.w.OnAck(channelName)
	}
	if c.w.OnAckData != nil {
		var names []string
		for _, m := range ack.Msgs {
			if m.Type == "ins" || m.Type == "del" {
				names = append(names, m.Name)
			}
		}
		if len(names) > 0 {
			c.w.OnAckData(channelName, ack.EndSeq, names)
		}
	}
	if c.w.Note != nil {
		var sb strings.Builder
		for _, m := range ack.Msgs {
			fmt.Fprintf(&sb, " %s:%d@%d", m.Type, m.Tag, m.Ts)
		}
		pch := ""
		if len(endPositions) > 0 {
			pch = endPositions[len(endPositions)-1].ChannelName
		}
		c.w.Note("ack %s [%d,%d] seq=%d pos=%s%s", channelName, beginTs, endTs, ack.EndSeq, pch, sb.String())
	}
	pos := &msgpb.MsgPosition{ChannelName: channelName, MsgID: []byte(fmt.Sprintf("t%d", len(c.w.State.Acks))), Timestamp: endTs}
	b, _ := proto.Marshal(pos)
	return &entity.MessageInfo{Position: base64.StdEncoding.EncodeToString(b)}, nil
}
