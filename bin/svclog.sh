#!/bin/bash
# debugging aid: runs the first incarnation of a replay file with the service's own log (Info level) and the simulator's
# event log interleaved on stdout. usage: svclog.sh <replay.json> [more env...]
f=$1; d=$(mktemp -d /tmp/svclog.XXXX)
python3 - "$f" "$d" <<'P'
import json,sys
o=json.load(open(sys.argv[1])); p=o.get('plan',o); p['incarnation']=0; p['state_out']=sys.argv[2]+'/state0.json'
for k in ('state_in','tape_pos'): p.pop(k,None)
json.dump(p,open(sys.argv[2]+'/plan0.json','w'))
P
B=$(python3 -c "import sys; sys.path.insert(0,'/verif/bin'); import check; print(check.BIN)")
( cd $d && VERIF_SVCLOG=1 VERIF_TRACE=1 VERIF_PLAN=plan0.json VERIF_OUT=$d/out.json GOMAXPROCS=1 GODEBUG=asyncpreemptoff=1 GOGC=off $B -test.run '^TestChild$' 2>&1 )
rm -rf $d
