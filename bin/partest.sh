#!/bin/bash
# usage: partest.sh [pids_max] [fresh]  -- runs setup_cmd and then ALL quick commands of MANIFEST.json side by side, inside a pids
# cgroup with the given limit (default 300), the way the whole manifest is exercised at once. "fresh" removes .build first.
# Prints one line per check; logs in /tmp/par_<id>.log. Evidence and replays are restored afterwards.
max=${1:-300}
cg=/sys/fs/cgroup/pids/veriftest
mkdir -p $cg 2>/dev/null
echo $max > $cg/pids.max
echo $$ > $cg/cgroup.procs
export GOFLAGS=-mod=mod GOPROXY=off GOSUMDB=off GOTOOLCHAIN=local VERIF_SEED=1 VERIF_TIER=quick
cd /verif
[ "$2" = fresh ] && rm -rf .build
sav=$(mktemp -d /tmp/verif-evsave.XXXX); cp -a evidence replays $sav/
t0=$(date +%s)
bash -c "$(jq -r .setup_cmd MANIFEST.json)" > /tmp/par_setup.log 2>&1; echo "setup rc=$? $(( $(date +%s)-t0 ))s"
ids=$(jq -r ".checks[].property_id" MANIFEST.json)
for p in $ids; do
  cmd=$(jq -r --arg p $p '.checks[]|select(.property_id==$p)|.quick_cmd' MANIFEST.json)
  ( bash -c "$cmd" > /tmp/par_$p.log 2>&1; echo "rc=$?" >> /tmp/par_$p.log ) &
done; wait
for p in $ids; do echo "$p: $(tail -n1 /tmp/par_$p.log) viol=$(grep -c '^VIOLATION' /tmp/par_$p.log) $(grep -v '^KNOWN\|^rc=' /tmp/par_$p.log | tail -n1 | cut -c1-110)"; done
echo "total $(( $(date +%s)-t0 ))s; pids events: $(cat $cg/pids.events 2>/dev/null | tr '\n' ' ')"
rm -rf evidence replays; mv $sav/evidence $sav/replays .; rmdir $sav
