#!/usr/bin/env python3
"""Regenerates /verif/MANIFEST.json from the table below (claimed checks) and properties.jsonl."""
import json, subprocess, sys
sys.path.insert(0, '/verif/bin')
from props import PROPS
TECH = "deterministic simulation with fault injection (seeded scheduler/fault tape, replay files, shrinking)"
NOTE_R = "Trusted base: SimMQ (model of MqTtMsgStream+msgdispatcher pack construction), SimTarget (downstream catalog), the harness playing the server side; schedules are sampled, not enumerated; interleavings inside a step are explored only at the verif yield points."
NOTE_ST = "Trusted base: SimEtcd (MVCC map behind clientv3.KV/Txn) and SimSQL (database/sql driver executing the stores' statement shapes with MySQL LIKE semantics); sequential operation histories with tape-placed store faults; sampled, not enumerated."
CLAIMED = {
 "C01": ("Seeded schedule/fault search over the real reader pipeline (rig R): every emitted message is matched to the source log by tag; phantom, duplicate, order, payload, pack order/labels and completeness after a fault-free drain are checked on each run.", "4 C01", NOTE_R),
 "C02": ("Seeded search over placements (aligned and crossed/forward-path), start orders and late partition ids on rig R; every emitted message's collection id, partition id, shard pairing, queue and positions are compared with the simulated downstream catalog.", "4 C02", NOTE_R),
 "C03": ("Seeded search over interleavings of streams multiplexed on one downstream channel with yield hooks at collect/compute/enqueue; tick monotonicity, message-above-earlier-ticks, timestamp agreement and per-shard order are checked both in lock order and in queue order (single incarnation).", "4 C03", NOTE_R),
 "C04": ("Seeded search over shard orders, AddPartition/registration races and stops on rig R; drop requests are checked for exactly-once, naming, stop-produces-no-drop, and against the barrier signals observed through the yield hook (only after every shard handled its drop message), plus bounded liveness after the drain.", "4 C04", NOTE_R),
 "C07": ("Seeded interleavings of 1-3 channel writers over the real HandleReplicateMessage / replicateMessageManager with parked downstream calls and injected rejections: every downstream call's bytes are decoded with Milvus' own dispatcher and compared (type, order, ids, mapped names, rows, timestamps, replicate marking, tick conversion); envelope, checkpoint, per-call target position (no cross-talk) and error propagation are checked.", "4 C07", "Trusted base: the recording DataHandler and the message builders; the round-trip equality itself has no schedule dependence, the simulator adds concurrent callers, completion order and failures."),
 "C08": ("Seeded source histories with create/drop/re-create on all three levels, a start-up snapshot of dropped objects plus a replayed op prefix, and two concurrent delivery streams (API events, op messages) whose relative progress the scheduler chooses, against the real ChannelWriter over a downstream that tags every object with the source incarnation that created it: stale operations must be skipped successfully and never touch a newer incarnation, live ones must be applied.", "4 C08", "Trusted base: the simulated downstream catalog (drops idempotent, other operations fail on missing objects), the start-up snapshot built as C15 describes it; restart of the writer in the middle of a run is not modelled (one incarnation with a replayed prefix)."),
 "C09": ("Same rig as C08 with a name mapping in every run (exact, whole-database, both for one source database, unrelated; source db default/empty/other) and replayable Map.Range order: database routed to, request database and collection names of every downstream call (18 op kinds, 4 API events, 3 probes) are compared with the reference mapping; DML message types are covered in the C07 check.", "4 C09", "Trusted base: reference mapping function (exact entry, else whole-database entry, else identity); database-level names under collection-level-only entries are accepted either way (see DESIGN)."),
 "C12": ("Seeded operation histories with injected store faults against both real metadata backends over simulated etcd / MySQL servers; after every operation the whole state is read back through the public API and compared with a reference map keyed (root, task, collection, channel); failed operations must be all-or-nothing.", "4 C12", NOTE_ST),
 "C13": ("Seeded interleavings of source-catalog writes with every etcd step of the real CollectionReader/EtcdOp start sequence and with watch deliveries: at quiescence every collection and non-default partition that exists (created) and is selected must have had its replication started by a selecting task, objects that never reached created must not, and partitions must be attributed to their collection.", "4 C13", "Trusted base: SimEtcd (watch events in revision order with PrevKV, effective from Watch() return), the rootcoord write generator (tombstone = snapshot-KV tombstone value), the recording channel manager."),
 "C14": ("Seeded interleavings of 1-3 batchers sharing the global memory budget under a simulated clock, with callback failures injected at any flush: every callback must receive exactly the packs buffered since the last flush in arrival order, errors must reach the caller, nothing may be left at shutdown and the global counter must be zero whenever all batchers are empty.", "4 C14", "Trusted base: the scripted callback and the bubble clock; the batcher itself is sequential, the simulator supplies the clock, the interleaving of batchers around the shared counter and the failure points."),
 "C16": ("Seeded search over channel counts (both directions and equal), downstream placements and start orders on the real channel manager; after every scheduler step the assignment table (read through a verif accessor) must be stable (no entry ever changes or disappears) and within quota (no channel serves more than ceil(larger/smaller) channels of the other side; one-to-one with equal counts).", "4 C16", NOTE_R + " Totality (every channel in use eventually assigned) is not judged."),
 "C17": ("Seeded histories of shard reports, removals and reloads against the real ReplicateMeteImpl over the real etcd / MySQL replicate stores (simulated servers) and an in-memory store; memory, store and the union of reports must agree after every step and readiness must equal union == targets.", "4 C17", NOTE_ST),
 "C20": ("Two rigs, alternated: (R) create/drop collection/partition API events produced by the reader are checked for replication stamp, task and source operation time under scheduler-ordered barrier wake-ups; (WD) every op-message kind and API event through the real ChannelWriter must yield exactly one downstream request of the right kind with the source's identity fields (index, field, partition lists minus dropped members, user/role/privilege, schema/shards/consistency/properties), the replication mark and the source operation time; malformed packs are rejected without a downstream call.", "4 C20", NOTE_R + " Rig WD: see C08."),
}
NOTE_S = "Trusted base: SimEtcd/SimSQL (metadata and source catalog), SimMQ (dispatcher model), SimSDK (downstream Milvus behind the SDK client interface), the history generator playing rootcoord; one OS process per service incarnation, the external world survives a crash in a state file; schedules and fault placements are sampled, not enumerated."
CLAIMED.update({
 "C10": ("Seeded operator sequences (create/pause/resume/delete over every specification shape, name mappings, user-role flag) against the whole service with store / downstream-query faults at any parked call and a crash+restart: after every answered request and after the reload, over a finite universe of (database, collection) names, at most one persisted task per downstream selects a collection, stream selection equals DDL-message selection, every task selects its specification minus its recorded exclusions, rejected creates leave the bookkeeping untouched, and after delete / failed create / restart the bookkeeping equals what the persisted tasks imply.", "4 C10", NOTE_S),
})
EXTRA = {}
try:
    from manifest_extra import EXTRA as E2
    EXTRA = E2
except Exception:
    pass
CLAIMED.update(EXTRA)
ids = [json.loads(l)['id'] for l in open('/verif/properties.jsonl')]
commits = [l.split()[0] for l in subprocess.run(['git', '-C', '/repo', 'log', '--format=%h %s'], capture_output=True, text=True).stdout.splitlines() if l.split(' ', 1)[1].startswith('verif hook')]
checks = []
for pid in sorted(CLAIMED):
    if pid not in PROPS:
        continue
    text, ref, note = CLAIMED[pid]
    checks.append({"property_id": pid, "quick_cmd": "python3 bin/check.py %s --tier quick" % pid, "thorough_cmd": "python3 bin/check.py %s --tier thorough" % pid,
                   "evidence_file": "/verif/evidence/%s.json" % pid, "replay_cmd_template": "python3 bin/check.py %s --replay {path}" % pid, "engine": "sim",
                   "level_claimed": {"category": "exploration", "text": text, "design_ref": "DESIGN.md section " + ref},
                   "level_note": note, "technique": TECH})
claimed = set(c["property_id"] for c in checks)
NA = {"C15": "pure function of one catalog snapshot computed by a single goroutine: no schedule, clock, fault or interleaving for a simulator to own (DESIGN.md section 5)"}
m = {"version": 1, "setup_cmd": "python3 bin/check.py --setup",
     "hooks": {"guard": "verif", "enable": "go1.26.8 test -c -tags verif (GOTOOLCHAIN=local) in the harness module /verif/sim, which replaces milvus-cdc core/server with /repo/core, /repo/server",
               "baseline_off_cmd": json.load(open('/root/.vp/BASELINE.json'))['cmd'], "source_commits": commits[::-1], "add_only": True},
     "engines": [{"name": "sim", "path": "sim", "serves_properties": sorted(claimed), "kind_free_text": "deterministic simulator: one synctest bubble per OS process (rigs with time/concurrency), parked seam calls, seeded scheduler tape, fault injection, replay files, shrinking (driver bin/check.py)"}],
     "checks": checks,
     "not_applicable": [{"property_id": i, "reason": NA.get(i, "check not built yet (build in progress, see DESIGN.md section 4)")} for i in ids if i not in claimed],
     "notes": "known findings and fixed defects: /verif/known_findings.json; seeded breaking changes: /verif/seeded/"}
json.dump(m, open('/verif/MANIFEST.json', 'w'), indent=1)
print("claimed:", sorted(claimed))
