#!/bin/bash
# usage: seeds_sweep.sh [ID-n ...]  -- applies every seeded change (default: all under /verif/seeded) to /repo in turn, runs the
# quick check of its property and reports whether the check exits 1 with a VIOLATION line. /repo, evidence and replays are restored.
# (C04-1 is neutralised by a later fix and is expected to apply no more / be missed.)
cd /verif
ids="$@"; [ -z "$ids" ] && ids=$(ls seeded | sort)
for s in $ids; do
  prop=${s%%-*}
  out=$(TAIL=400 bash bin/mutant.sh /verif/seeded/$s/patch.diff $prop 2>&1)
  if echo "$out" | grep -q "PATCH DOES NOT APPLY"; then echo "$s: patch does not apply"; continue; fi
  rc=$(echo "$out" | grep -o "exit=[0-9]*" | tail -1)
  rules=$(echo "$out" | grep "^VIOLATION" | sed 's/.*replays\///; s/-[0-9]*\.json//' | sort -u | tr '\n' ' ')
  echo "$s: $rc $rules"
done
