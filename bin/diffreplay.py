import sys,json,os,shutil
sys.path.insert(0,'/verif/bin')
import check
doc=json.load(open(sys.argv[1])); plan=doc.get('plan',doc); plan['replay']=True
n=int(sys.argv[2]) if len(sys.argv)>2 else 8
logs={}
for i in range(n):
    wd='/verif/.work/diffreplay/%d'%i
    shutil.rmtree(wd,ignore_errors=True)
    r=check.run_child(dict(plan),wd,keeplog=True,gomaxprocs=os.environ.get("GMP","1"))
    logs.setdefault(r.get('log_hash'),r.get('log') or [])
print(list(logs))
ks=list(logs)
for j in range(1,len(ks)):
    a,b=logs[ks[0]],logs[ks[j]]
    for i,(x,y) in enumerate(zip(a,b)):
        if x!=y:
            print('\n'.join(a[max(0,i-25):i+4])); print('-----'); print('\n'.join(b[max(0,i-2):i+4])); break
    break
