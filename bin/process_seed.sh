#!/bin/bash
# usage: process_seed.sh <ID> <wave> <module(core|server)> <pkg rel to module> [<-run regexp>]
# Confirms an agent's seeded change in its worktree /tmp/seed-<ID>-<wave> (builds; demo FAILS with the change, PASSES without),
# then runs the quick check of the property against it in /repo (bin/mutant.sh) and reports.
id=$1; wave=$2; mod=$3; pkg=$4; run=${5:-TestSeededDemo}
wt=/tmp/seed-$id-$wave
export GOFLAGS=-mod=mod GOPROXY=off GOSUMDB=off
cd $wt || exit 2
p=$wt/_seeded/patch.diff
[ -s $p ] || { echo "no patch.diff"; exit 2; }
git apply -R --check $p 2>/dev/null || { echo "change not applied in the worktree; applying"; git apply $p || exit 2; }
(cd core && go build ./... ) && (cd server && go build ./...) || { echo "BUILD FAIL"; exit 1; }
echo "== demo WITH the change (expect FAIL)"
(cd $mod && go test -vet=off -count=1 -timeout 300s ./$pkg/ -run "$run" 2>&1 | tail -6)
git apply -R $p
echo "== demo WITHOUT the change (expect PASS)"
(cd $mod && go test -vet=off -count=1 -timeout 300s ./$pkg/ -run "$run" 2>&1 | tail -3)
git apply $p
echo "== check $id against the change"
cd /verif && TAIL=${TAIL:-6} bash bin/mutant.sh $p $id
