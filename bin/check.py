#!/usr/bin/env python3
"""Driver of the deterministic-simulation checks (see /verif/DESIGN.md).

  check.py --setup                      build the simulator, smoke determinism test
  check.py <ID> --tier quick|thorough   run the check of property <ID>
  check.py <ID> --replay <file>         re-execute a replay file (exit 1 if it reproduces)
  check.py --selftest                   determinism self-test over all rigs

Exit codes: 0 property held on everything explored (KNOWN-FINDING lines possible),
1 violation (line "VIOLATION property=<id> replay=<path>"), 2 build / harness trouble.
"""
import argparse, concurrent.futures as cf, hashlib, json, os, shutil, subprocess, sys, time, copy, random

VERIF = os.path.dirname(os.path.dirname(os.path.abspath(__file__)))
SIM = os.path.join(VERIF, "sim")
REPO = "/repo"  # the harness module (sim/go.mod) replaces the milvus-cdc modules with /repo/core and /repo/server
BUILD = os.path.join(VERIF, ".build")
WORK = os.path.join(VERIF, ".work")
BIN = os.path.join(BUILD, "sim.test")
GOENV = dict(os.environ, GOFLAGS="-mod=mod", GOPROXY="off", GOSUMDB="off", GOTOOLCHAIN="local")
JOBS = 16  # upper bound; see effective_jobs()

sys.path.insert(0, os.path.join(VERIF, "bin"))
from props import PROPS  # noqa: E402


def log(*a):
    print(*a, flush=True)


def source_stamp():
    """Content hash of everything the harness binary is built from: /repo's working tree (not .git), the harness sources
    and the toolchain version. The binary is rebuilt whenever this changes; when it has not changed since the last successful
    build the toolchain is not started at all (nineteen checks starting side by side would otherwise start nineteen of them)."""
    import hashlib
    h = hashlib.sha256()
    for root in (REPO, SIM):
        for dp, dns, fns in os.walk(root):
            dns[:] = sorted(d for d in dns if d != ".git")
            for fn in sorted(fns):
                fp = os.path.join(dp, fn)
                if not os.path.isfile(fp) or os.path.islink(fp):
                    continue
                h.update(fp.encode() + b"\0")
                try:
                    with open(fp, "rb") as f:
                        h.update(hashlib.sha256(f.read()).digest())
                except OSError:
                    h.update(b"?")
    h.update(("go1.26.8|tags=verif|" + os.environ.get("VERIF_BUILD_SALT", "")).encode())
    return h.hexdigest()


def build():
    os.makedirs(BUILD, exist_ok=True)
    t0 = time.time()
    # built beside the final name and renamed into place: several checks may build (and run the binary) at the same time
    tmp = "%s.%d.tmp" % (BIN, os.getpid())
    stampf = BIN + ".stamp"
    lock = os.open(os.path.join(BUILD, "build.lock"), os.O_CREAT | os.O_RDWR, 0o644)
    fcntl.flock(lock, fcntl.LOCK_EX)  # one build at a time on this machine; the others wait and find the stamp
    try:
        stamp = source_stamp()
        try:
            if os.path.exists(BIN) and open(stampf).read().strip() == stamp and not os.environ.get("VERIF_FORCE_BUILD"):
                pin_binary()
                return time.time() - t0
        except OSError:
            pass
        for attempt in range(14):
            # fewer toolchain threads on the later attempts: the machine is short of them
            env = dict(GOENV, GOMAXPROCS=os.environ.get("VERIF_BUILD_PROCS", "8" if attempt == 0 else "2"))
            p = subprocess.run(["go1.26.8", "test", "-c", "-p", "4" if attempt == 0 else "1", "-tags", "verif", "-o", tmp, "."], cwd=SIM, env=env,
                               stdout=subprocess.PIPE, stderr=subprocess.STDOUT, text=True)
            if p.returncode == 0 or not any(m in p.stdout for m in RESOURCE_MARKS + ("goroutine ",)):
                break
            time.sleep(min(3 + attempt * 4, 40))  # the toolchain itself died for lack of threads: wait for the machine to calm down
        if p.returncode != 0:
            log("BUILD FAILED (exit 2):\n" + p.stdout[-6000:])
            try:
                os.remove(tmp)
            except OSError:
                pass
            sys.exit(2)
        os.replace(tmp, BIN)
        with open(stampf + ".tmp", "w") as f:
            f.write(stamp)
        os.replace(stampf + ".tmp", stampf)
        pin_binary()
    finally:
        fcntl.flock(lock, fcntl.LOCK_UN)
        os.close(lock)
    return time.time() - t0


RUNBIN = [None]


def pin_binary():
    """This process keeps running the binary it built / found: a private hard link, so that a rebuild by another check
    (after /repo changed) never swaps the binary in the middle of a batch. Called with the build lock held."""
    import atexit
    if RUNBIN[0]:
        try:
            os.remove(RUNBIN[0])
        except OSError:
            pass
    for fn in os.listdir(BUILD):  # links left by checks that were killed
        if fn.startswith("sim.test.run."):
            try:
                if not os.path.exists("/proc/%d" % int(fn.rsplit(".", 1)[1])):
                    os.remove(os.path.join(BUILD, fn))
            except (ValueError, OSError):
                pass
    priv = "%s.run.%d" % (BIN, os.getpid())
    try:
        if os.path.exists(priv):
            os.remove(priv)
        os.link(BIN, priv)
        RUNBIN[0] = priv
        atexit.register(lambda: os.path.exists(priv) and os.remove(priv))
    except OSError:
        RUNBIN[0] = None  # no hard links here: run the shared binary


import fcntl, contextlib


@contextlib.contextmanager
def global_slot():
    """At most N simulated processes run at once on this machine, however many checks run side by side
    (file locks under .build/slots; N = VERIF_SLOTS or the number of CPUs, at most 16)."""
    n = int(os.environ.get("VERIF_SLOTS", "0") or 0) or min(16, os.cpu_count() or 4)
    if LOW_RESOURCE[0]:
        n = min(n, 2)
    d = os.path.join(BUILD, "slots")
    os.makedirs(d, exist_ok=True)
    start = (os.getpid() * 7 + int(time.time() * 1000)) % n
    fd = None
    while fd is None:
        for k in range(n):
            i = (start + k) % n
            f = os.open(os.path.join(d, "slot-%02d.lock" % i), os.O_CREAT | os.O_RDWR, 0o644)
            try:
                fcntl.flock(f, fcntl.LOCK_EX | fcntl.LOCK_NB)
                fd = f
                break
            except OSError:
                os.close(f)
        if fd is None:
            time.sleep(0.03)
    try:
        yield
    finally:
        try:
            fcntl.flock(fd, fcntl.LOCK_UN)
        finally:
            os.close(fd)


RESOURCE_MARKS = ("failed to create new OS thread", "pthread_create failed", "Resource temporarily unavailable",
                  "cannot allocate memory", "runtime: may need to increase max user processes", "newosproc", "fork/exec")


LOW_RESOURCE = [False]   # set once the machine refused a process / thread: the rest of the batch runs one child at a time
DIAG_PRINTED = [False]


def resource_diag():
    """What the machine looks like when it refuses processes / threads (printed once per check, for the logs). Reads /proc
    and the cgroup files directly: when the machine refuses processes a shell cannot be started either."""
    import glob, resource as _res
    def rd(path):
        try:
            with open(path) as f:
                return f.read().strip()
        except OSError as e:
            return "(%s)" % e.strerror
    out = []
    procs, threads, byname = 0, 0, {}
    for d in glob.glob("/proc/[0-9]*"):
        try:
            with open(d + "/status") as f:
                st = f.read()
        except OSError:
            continue
        procs += 1
        name, n = "?", 1
        for line in st.splitlines():
            if line.startswith("Name:"):
                name = line.split(None, 1)[1]
            elif line.startswith("Threads:"):
                n = int(line.split()[1])
        threads += n
        c = byname.setdefault(name, [0, 0])
        c[0] += n
        c[1] += 1
    out.append("threads=%d procs=%d load=%s" % (threads, procs, rd("/proc/loadavg")))
    mem = [l for l in rd("/proc/meminfo").splitlines() if l.split(":")[0] in ("MemTotal", "MemAvailable", "Committed_AS", "CommitLimit")]
    out.append("mem: " + "; ".join(" ".join(l.split()) for l in mem))
    try:
        nproc = _res.getrlimit(_res.RLIMIT_NPROC)
    except Exception as e:  # noqa
        nproc = repr(e)
    cg = []
    for pat in ("/sys/fs/cgroup/pids.max", "/sys/fs/cgroup/pids.current", "/sys/fs/cgroup/pids/pids.max", "/sys/fs/cgroup/pids/pids.current"):
        if os.path.exists(pat):
            cg.append("%s=%s" % (pat, rd(pat)))
    own = rd("/proc/self/cgroup").replace("\n", " | ")
    for line in rd("/proc/self/cgroup").splitlines():
        rel = line.split(":", 2)[-1]
        for base in ("/sys/fs/cgroup", "/sys/fs/cgroup/pids"):
            for fn in ("pids.max", "pids.current"):
                path = base + rel.rstrip("/") + "/" + fn
                if os.path.exists(path) and ("%s=" % path) not in " ".join(cg):
                    cg.append("%s=%s" % (path, rd(path)))
    out.append("limits: RLIMIT_NPROC=%s pid_max=%s threads-max=%s overcommit=%s cgroup(self)=%s %s" % (
        nproc, rd("/proc/sys/kernel/pid_max"), rd("/proc/sys/kernel/threads-max"), rd("/proc/sys/vm/overcommit_memory"), own, " ".join(cg) or "(no pids controller files)"))
    top = sorted(byname.items(), key=lambda kv: -kv[1][0])[:12]
    out.append("most frequent commands: " + " | ".join("%d threads / %d procs: %s" % (v[0], v[1], k) for k, v in top))
    return "\n".join(out)


def note_low_resource():
    LOW_RESOURCE[0] = True
    if not DIAG_PRINTED[0]:
        DIAG_PRINTED[0] = True
        try:
            log("RESOURCE DIAGNOSTICS (the machine refused a process or thread):\n" + resource_diag())
        except Exception as e:  # noqa
            log("RESOURCE DIAGNOSTICS failed: %r" % (e,))


def spawn_with_retry(cmd, workdir, env, timeout):
    """subprocess.run that waits when the machine is out of processes / threads (other checks running beside this one)."""
    delay, waited = 0.2, 0.0
    while True:
        try:
            return subprocess.run(cmd, cwd=workdir, env=env, stdout=subprocess.PIPE, stderr=subprocess.PIPE, timeout=timeout)
        except (BlockingIOError, RuntimeError, OSError) as e:
            if isinstance(e, OSError) and not isinstance(e, BlockingIOError) and e.errno not in (11, 12, 24):
                raise
            note_low_resource()
            if waited > 120:
                raise
            time.sleep(delay)
            waited += delay
            delay = min(delay * 2, 5.0)


def run_child(plan, workdir, keeplog=False, timeout=90, gomaxprocs="1"):
    """Runs one incarnation chain of a plan. Returns the (last) result dict."""
    os.makedirs(workdir, exist_ok=True)
    plan = dict(plan)
    for k in ("state_in", "state_out", "tape_pos", "incarnation"):
        plan.pop(k, None)
    inc = 0
    state = None
    total_stats = {}
    hang_retries = 0
    while True:
        pf = os.path.join(workdir, "plan%d.json" % inc)
        of = os.path.join(workdir, "out%d.json" % inc)
        plan["incarnation"] = inc
        if state:
            plan["state_in"] = state
        plan["state_out"] = os.path.join(workdir, "state%d.json" % inc)
        with open(pf, "w") as f:
            json.dump(plan, f)
        # DBUS_SESSION_BUS_ADDRESS: the pulsar client's keyring dependency asks for the D-Bus session bus in a package
        # initialiser; with no address in the environment and a `dbus-launch` on the PATH (conda's) every child would start
        # a dbus-daemon that stays behind - tens of thousands of them exhaust the machine's process ids (vp check 8-10)
        env = dict(os.environ, VERIF_PLAN=pf, VERIF_OUT=of, GOMAXPROCS=gomaxprocs, GODEBUG="asyncpreemptoff=1", GOGC=os.environ.get("VERIF_GOGC", "off"),
                   DBUS_SESSION_BUS_ADDRESS="unix:path=/nonexistent/verif-no-session-bus")
        env.pop("DISPLAY", None)
        if keeplog:
            env["VERIF_KEEPLOG"] = "1"
        try:
            cmd = ["bash", "-c", "ulimit -v 6291456; exec '%s' -test.run '^TestChild$' -test.timeout 120s" % (RUNBIN[0] or BIN)]
            for attempt in range(40):
                if os.path.exists(of):
                    os.remove(of)
                with global_slot():
                    p = spawn_with_retry(cmd, workdir, env, timeout)
                rc, out, err = p.returncode, p.stdout, p.stderr
                if os.path.exists(of) or not any(m.encode() in (out + err) for m in RESOURCE_MARKS):
                    break
                # the process died before it could run (the machine is out of threads / processes): wait and try again
                note_low_resource()
                if attempt >= 12:
                    return {"status": "no_resources", "rc": rc, "output": "child could not be started (the machine is out of threads/processes) after %d attempts" % (attempt + 1), "plan": plan, "stats": {}, "probes": {}}
                time.sleep(min(0.5 + attempt * 0.5, 6.0))
            else:
                return {"status": "no_resources", "rc": rc, "output": "child could not be started (the machine is out of threads/processes)", "plan": plan, "stats": {}, "probes": {}}
        except subprocess.TimeoutExpired as e:
            return {"status": "timeout", "harness": "child exceeded %ds wall" % timeout, "plan": plan, "stats": {}, "probes": {},
                    "stdout": (e.stdout or b"")[-4000:].decode("utf8", "replace")}
        res = None
        if os.path.exists(of):
            try:
                res = json.load(open(of))
            except Exception as ex:  # noqa
                res = None
        if res is None:
            txt = (out + b"\n" + err).decode("utf8", "replace")
            status = "panic" if ("panic:" in txt or "fatal error:" in txt or "[PANIC]" in txt or "goroutine " in txt) else "noresult"
            if any(m in txt for m in RESOURCE_MARKS) and "milvus-cdc" not in txt.split("goroutine ")[0]:
                status = "noresult"
            if status == "panic" and "panic: fail to get all task info" in txt and "MetaCDC).ReloadTask" in txt:
                # the service refuses to start when it cannot list its tasks at start-up (the scheduler let the store's
                # answer to that very first read take longer than the client's deadline): a start-up precondition of the
                # scenarios, not a replication failure; the run is left out
                status = "startup_abort"
            return {"status": status, "rc": rc, "output": txt[-12000:], "plan": plan, "stats": {}, "probes": {}}
        if res.get("status") == "hang" and "phase=init" in str(res.get("harness")) and hang_retries < 2:
            # no progress before the scenario even started (process start-up under a heavy machine load): run it again
            hang_retries += 1
            continue
        res["rc"] = rc
        res["child_output"] = (out + err)
        if res.get("status") == "crash_continue":
            # the simulated process was killed; start the next incarnation from the saved world
            state = plan["state_out"]
            nplan = res.get("plan") or plan
            was_replay = bool(plan.get("replay"))
            plan = dict(nplan)
            plan["replay"] = was_replay
            plan["tape_pos"] = res.get("tape_pos", 0)
            inc += 1
            if inc > 6:
                res["status"] = "harness_error"
                res["harness"] = "too many incarnations"
                return res
            continue
        return res


def safe_name(rule):
    return "".join(c if (c.isalnum() or c in "_.-") else "_" for c in rule)[:80]


def sig_of(v):
    return v["property"] + "/" + v["rule"]


def load_known():
    path = os.path.join(VERIF, "known_findings.json")
    if not os.path.exists(path):
        return {"findings": [], "fixed": []}
    return json.load(open(path))


def matches_known(known, prop, v):
    for k in known.get("findings", []):
        props = k.get("properties") or [k.get("property")]
        if prop not in props:
            continue
        if "rule_suffix" in k:
            if not v["rule"].endswith(k["rule_suffix"]):
                continue
        elif k["rule"] != v["rule"]:
            continue
        need = k.get("detail_contains", [])
        if all(s in v.get("detail", "") for s in need):
            return k
    return None


def worker_token():
    """A machine-wide token for one extra driver thread (file locks under .build/workers): however many checks run side by
    side, together they keep at most N extra threads, so a machine with a small process/thread allowance is not exhausted.
    Returns a descriptor to close, or None when no token is free."""
    n = int(os.environ.get("VERIF_WORKERS", "0") or 0) or min(20, (os.cpu_count() or 4) + 4)
    d = os.path.join(BUILD, "workers")
    os.makedirs(d, exist_ok=True)
    start = (os.getpid() * 13 + int(time.time() * 1000)) % n
    for k in range(n):
        f = os.open(os.path.join(d, "w-%02d.lock" % ((start + k) % n)), os.O_CREAT | os.O_RDWR, 0o644)
        try:
            fcntl.flock(f, fcntl.LOCK_EX | fcntl.LOCK_NB)
            return f
        except OSError:
            os.close(f)
    return None


def parallel_map(fn, items, jobs, deadline=None):
    """Runs fn over items on up to `jobs` threads. The calling thread always works; each extra thread needs a machine-wide
    token (worker_token) and more are started whenever an item finishes and a token is free. Survives a machine that refuses
    new threads (fewer workers, in the end only the calling thread)."""
    import threading, queue
    q = queue.Queue()
    for i, it in enumerate(items):
        q.put((i, it))
    out = [None] * len(items)
    threads = []
    tl = threading.Lock()
    live = [1]

    def grow():
        with tl:
            while live[0] < max(1, jobs) and q.qsize() > 0:
                tok = worker_token()
                if tok is None:
                    return
                try:
                    t = threading.Thread(target=worker, args=(tok,), daemon=True)
                    live[0] += 1
                    t.start()
                    threads.append(t)
                except RuntimeError:
                    live[0] -= 1
                    os.close(tok)
                    return

    def worker(tok):
        try:
            while True:
                try:
                    i, it = q.get_nowait()
                except queue.Empty:
                    return
                if deadline is not None and time.time() > deadline:
                    continue  # wall-clock budget used up: the remaining items are not started (out[i] stays None)
                if LOW_RESOURCE[0] and tok is not None:
                    q.put((i, it))
                    return  # the machine is short of processes: only the calling thread goes on
                try:
                    out[i] = fn(it)
                except Exception as e:  # noqa
                    st = "harness_error"
                    if isinstance(e, (BlockingIOError, MemoryError)) or (isinstance(e, OSError) and e.errno in (11, 12, 24)) or "can't start new thread" in repr(e):
                        st = "no_resources"
                        note_low_resource()
                    out[i] = {"status": st, "harness": "driver: %r" % (e,), "plan": it if isinstance(it, dict) else None, "stats": {}, "probes": {}}
                if not LOW_RESOURCE[0]:
                    grow()
        finally:
            if tok is not None:
                with tl:
                    live[0] -= 1
                os.close(tok)

    grow()
    worker(None)
    while True:
        with tl:
            ts = list(threads)
        alive = [t for t in ts if t.is_alive()]
        if not alive:
            break
        alive[0].join()
    return out


def effective_jobs():
    j = int(os.environ.get("VERIF_JOBS", "0") or 0)
    if j > 0:
        return j
    n = os.cpu_count() or 4
    try:
        load = os.getloadavg()[0]
    except OSError:
        load = 0
    # other checks may be running beside this one: leave them room
    if load > n * 1.25:
        return max(4, n // 4)
    if load > n * 0.75:
        return max(6, n // 2)
    return min(16, n)


class Runner:
    def __init__(self, prop, tier, base_seed, runs, jobs):
        self.prop, self.tier, self.base_seed, self.runs, self.jobs = prop, tier, base_seed, runs, jobs
        self.cfg = PROPS[prop]
        self.kept_samples = 0
        self.work = os.path.join(WORK, prop)
        shutil.rmtree(self.work, ignore_errors=True)
        os.makedirs(self.work, exist_ok=True)

    def plans(self):
        variants = self.cfg.get("variants", [""])
        mix = self.cfg.get("mix") or [(self.cfg["rig"], v) for v in variants]
        for i in range(self.runs):
            seed = (self.base_seed * 1000003 + i * 7919 + 17) % (2**53)
            rig, v = mix[i % len(mix)]
            yield {"rig": rig, "prop": self.prop, "variant": v, "seed": seed, "tier": self.tier,
                   "log_level": self.cfg.get("log_level", "")}

    def one(self, plan):
        wd = os.path.join(self.work, "s%d" % plan["seed"])
        res = run_child(plan, wd)
        res.pop("child_output", None)
        keep = res.get("status") not in ("ok",)
        pl = res.get("plan") or {}
        res["script_hash"] = hashlib.sha1(json.dumps(pl.get("script"), sort_keys=True).encode()).hexdigest()[:8]
        if not keep:
            shutil.rmtree(wd, ignore_errors=True)
            # clean runs are kept in memory in a slim form (a thorough batch has up to 100000 of them)
            res["plan"] = {"seed": pl.get("seed"), "variant": pl.get("variant"), "tape": [0] * 0, "tape_len": len(pl.get("tape") or [])}
            res.pop("log", None)
            if self.kept_samples >= 4:
                res.pop("sample", None)
            else:
                self.kept_samples += 1
        return res

    def run_all(self, deadline=None):
        return parallel_map(self.one, list(self.plans()), self.jobs, deadline)


def relevant_violations(res, prop):
    out = []
    for v in res.get("violations") or []:
        if v["property"] == prop:
            out.append(v)
    if res.get("status") == "busy_loop" and prop == "C11":
        out.append({"property": "C11", "rule": "busy_loop", "detail": res.get("harness", ""), "step": res.get("steps", 0)})
    if res.get("status") == "panic" and prop in PROPS and PROPS[prop].get("panic_is_violation"):
        out.append({"property": prop, "rule": "panic", "detail": panic_line(res.get("output", "")), "step": 0})
    return out


def panic_line(txt):
    for l in txt.splitlines():
        if l.startswith("panic:") or "fatal error" in l or "[PANIC]" in l:
            return l.strip()[:300]
    return "process died without a result"


# ---------------------------------------------------------------- minimisation

def shrink(plan, prop, rule, budget_s, workdir):
    """Greedy structural + tape shrinking; accepts a candidate iff it yields the same (property, rule)."""
    t0 = time.time()
    counter = [0]

    def reproduces(cand):
        counter[0] += 1
        wd = os.path.join(workdir, "m%d" % counter[0])
        cand = dict(cand)
        cand["replay"] = True
        res = run_child(cand, wd, timeout=60)
        shutil.rmtree(wd, ignore_errors=True)
        for v in relevant_violations(res, prop):
            if v["rule"] == rule:
                return True
        return False

    best = copy.deepcopy(plan)
    best["replay"] = True
    if not reproduces(best):
        return best, False, counter[0]
    script = best.get("script")

    def try_replace(newscript=None, newtape=None):
        nonlocal best
        cand = copy.deepcopy(best)
        if newscript is not None:
            cand["script"] = newscript
        if newtape is not None:
            cand["tape"] = newtape
        if reproduces(cand):
            best = cand
            return True
        return False

    # tape truncation (binary) first: shorter schedules
    tape = list(best.get("tape") or [])
    lo, hi = 0, len(tape)
    while lo < hi and time.time() - t0 < budget_s:
        mid = (lo + hi) // 2
        if try_replace(newtape=tape[:mid]):
            hi = mid
            tape = tape[:mid]
        else:
            lo = mid + 1
    # structural: drop elements of lists found anywhere in the script
    def list_paths(node, path=()):
        if isinstance(node, dict):
            for k in sorted(node):
                yield from list_paths(node[k], path + (k,))
        elif isinstance(node, list):
            if node and all(isinstance(x, (dict, list)) for x in node):
                yield path
                for i, x in enumerate(node):
                    yield from list_paths(x, path + (i,))

    def get(node, path):
        for p in path:
            node = node[p]
        return node

    changed = True
    rounds = 0
    while changed and time.time() - t0 < budget_s and rounds < 4 and isinstance(best.get("script"), (dict, list)):
        changed = False
        rounds += 1
        for path in list(list_paths(best["script"])):
            try:
                lst = get(best["script"], path)
            except (KeyError, IndexError, TypeError):
                continue
            i = len(lst) - 1
            while i >= 0 and time.time() - t0 < budget_s:
                cand_script = copy.deepcopy(best["script"])
                l2 = get(cand_script, path)
                if i >= len(l2):
                    i -= 1
                    continue
                del l2[i]
                if try_replace(newscript=cand_script):
                    changed = True
                i -= 1
    # tape: zero out values
    tape = list(best.get("tape") or [])
    i = 0
    while i < len(tape) and time.time() - t0 < budget_s:
        if tape[i] != 0:
            t2 = list(tape)
            t2[i] = 0
            if try_replace(newtape=t2):
                tape = t2
        i += 1
    while tape and tape[-1] == 0:
        tape.pop()
    try_replace(newtape=tape)
    return best, True, counter[0]


# ---------------------------------------------------------------- evidence

def write_evidence(prop, tier, seed, results, wall, viol_count, notes):
    cfg = PROPS[prop]
    os.makedirs(os.path.join(VERIF, "evidence"), exist_ok=True)
    evals = len(results)
    sigs = set()
    stats, probes, status = {}, {}, {}
    sim_ms = 0
    steps = 0
    need = cfg.get("nontrivial_probes", [])
    samples = []
    real, stub = set(), set()
    for r in results:
        status[r.get("status", "?")] = status.get(r.get("status", "?"), 0) + 1
        for k, v in (r.get("stats") or {}).items():
            stats[k] = stats.get(k, 0) + v
        for k, v in (r.get("probes") or {}).items():
            probes[k] = probes.get(k, 0) + 1  # runs in which the probe fired
        sim_ms += r.get("sim_ms", 0) or 0
        steps += r.get("steps", 0) or 0
        pr = r.get("probes") or {}
        nontrivial = (not need) or any(pr.get(p, 0) > 0 for p in need)
        if r.get("status") in ("ok", "violation") and nontrivial and r.get("sched_sig"):
            sigs.add(r["sched_sig"] + ":" + (r.get("script_hash") or hashlib.sha1(json.dumps((r.get("plan") or {}).get("script"), sort_keys=True).encode()).hexdigest()[:8]))
        if len(samples) < 2 and r.get("status") == "ok" and nontrivial:
            pl = r.get("plan") or {}
            samples.append({"seed": pl.get("seed"), "variant": pl.get("variant"), "tape_len": pl.get("tape_len", len(pl.get("tape") or [])),
                            "steps": r.get("steps"), "sim_ms": r.get("sim_ms"), "log_hash": r.get("log_hash"),
                            "probes": r.get("probes"), "stats": r.get("stats"), "scenario": r.get("sample")})
        for x in r.get("real") or []:
            real.add(x)
        for x in r.get("stub") or []:
            stub.add(x)
    ev = {
        "property_id": prop, "tier": tier, "seed": seed, "level": "exploration",
        "coverage": {
            "evaluations": evals,
            "distinct_nontrivial": len(sigs),
            "rule": cfg.get("rule", "") + " A run counts as non-trivial when at least one of the probes %s fired; distinct = distinct (scenario hash, schedule signature) where the schedule signature hashes the chosen action at every step that had >= 2 enabled actions." % need,
            "samples": samples or [{"note": "no non-trivial ok run in this batch"}],
            "run_status": status,
            "runs_per_hour": int(evals / max(wall, 1e-3) * 3600),
            "simulated_seconds": round(sim_ms / 1000.0, 1),
            "scheduler_steps": steps,
            "faults_fired": {k: v for k, v in sorted(stats.items())},
            "probe_runs": {k: v for k, v in sorted(probes.items())},
            "components_real": sorted(real),
            "components_stubbed": sorted(stub),
            "notes": notes,
        },
        "assumptions": cfg.get("assumptions", []),
        "wall_s": round(wall, 2),
        "violations": viol_count,
    }
    with open(os.path.join(VERIF, "evidence", prop + ".json"), "w") as f:
        json.dump(ev, f, indent=1, sort_keys=True)
    return ev


# ---------------------------------------------------------------- commands

def cmd_check(prop, tier, seed, runs_override=None):
    if prop not in PROPS:
        log("unknown or unclaimed property", prop)
        return 2
    t0 = time.time()
    bt = build()
    cfg = PROPS[prop]
    runs = runs_override or cfg["runs"][tier]
    runner = Runner(prop, tier, seed, runs, effective_jobs())
    # wall-clock budget of the exploration phase (the quick tier is meant to end within minutes also on a machine that
    # is busy with other checks): runs that were not started when it is used up are left out and the evidence says so
    budget_s = float(os.environ.get("VERIF_BUDGET_S", "0") or 0) or (420.0 if tier == "quick" else 0.0)
    log("%s %s: build %.1fs, %d runs planned%s" % (prop, tier, bt, runs, (", exploration budget %.0fs" % budget_s) if budget_s else ""))
    results = runner.run_all(deadline=(time.time() + budget_s) if budget_s else None)
    planned = len(results)
    results = [r for r in results if r is not None]
    starved = [r for r in results if r.get("status") == "no_resources"]
    results = [r for r in results if r.get("status") != "no_resources"]
    known = load_known()
    notes = []
    if starved:
        notes.append("%d planned run(s) could not be started because the machine refused processes / threads (other work on the machine); they are left out" % len(starved))
        log("NOTE: %d run(s) could not be started because the machine refused processes / threads; left out (%d runs executed)" % (len(starved), len(results)))
    if len(results) < planned:
        notes.append("wall-clock budget of %.0fs reached: %d of %d planned runs were executed" % (budget_s, len(results), planned))
        log("NOTE: wall-clock budget of %.0fs reached: %d of %d planned runs were executed" % (budget_s, len(results), planned))
    # harness trouble first
    bad = [r for r in results if r.get("status") in ("harness_error", "noresult", "timeout", "hang")]
    panics = [r for r in results if r.get("status") == "panic"]
    busy = [r for r in results if r.get("status") == "busy_loop"]
    findings = {}  # sig -> (violation, result)
    for r in results:
        for v in relevant_violations(r, prop):
            findings.setdefault(v["rule"], []).append((v, r))
    new, knownhits = {}, {}
    for rule, lst in findings.items():
        for v, r in lst:
            k = matches_known(known, prop, v)
            if k is not None:
                knownhits.setdefault(k["id"], (k, v, r))
            else:
                new.setdefault(rule, (v, r))
    rc = 0
    os.makedirs(os.path.join(VERIF, "replays"), exist_ok=True)
    for kid, (k, v, r) in sorted(knownhits.items()):
        log("KNOWN-FINDING: property=%s %s [%s] e.g. seed=%s: %s" % (prop, k["what"], kid, (r.get("plan") or {}).get("seed"), v["detail"][:200]))
    for rule, (v, r) in sorted(new.items()):
        plan = r.get("plan")
        budget = 60 if tier == "quick" else 240
        mini, ok, tries = shrink(plan, prop, rule, budget, os.path.join(runner.work, "shrink-" + safe_name(rule)))
        mini["expect"] = prop + "/" + rule
        # final confirmation in fresh processes. A replay normally reproduces at the first attempt; a
        # violation that hinges on randomness inside the repo (Go's select picks at random among ready
        # cases) reproduces only in a fraction of the attempts, which is recorded in the replay file.
        attempts, hits, res2 = 0, 0, None
        for attempts in range(1, 9):
            rr = run_child(dict(mini, replay=True), os.path.join(runner.work, "confirm-" + safe_name(rule)), keeplog=True)
            if any(x["rule"] == rule for x in relevant_violations(rr, prop)):
                hits += 1
                res2 = rr
                if attempts == 1:
                    break
        if res2 is None:
            res2 = rr
        confirmed = hits > 0
        mini["replay_attempts"] = 1 if attempts == 1 else 12
        path = os.path.join(VERIF, "replays", "%s-%s-%d.json" % (prop, safe_name(rule), (plan or {}).get("seed", 0)))
        with open(path, "w") as f:
            json.dump({"plan": mini, "violation": v, "confirmed_in_fresh_process": confirmed, "reproduced": "%d/%d" % (hits, attempts), "shrink_runs": tries,
                       "log_tail": (res2.get("log") or [])[-80:], "detail_after_shrink": [x for x in relevant_violations(res2, prop)]}, f, indent=1)
        if not confirmed:
            if cfg.get("residual_nondeterminism"):
                # whole-server data-flow scenario: the run depended on a choice Go made at random (select among ready cases);
                # what cannot be replayed is not reported as a violation, it is counted in the evidence notes
                notes.append("unreproduced: %s/%s of seed %s did not reproduce in %d fresh executions: %s" % (prop, rule, (plan or {}).get("seed"), attempts, v["detail"][:200]))
                log("NOTE: %s/%s of seed %s did not reproduce in %d fresh executions (residual nondeterminism of whole-server runs, see DESIGN.md); not reported" % (prop, rule, (plan or {}).get("seed"), attempts))
                os.remove(path)
                continue
            log("HARNESS: violation %s/%s of seed %s did not reproduce in a fresh process (nondeterminism) -> exit 2" % (prop, rule, (plan or {}).get("seed")))
            log("  detail: " + v["detail"][:300])
            rc = max(rc, 2)
            continue
        log("  %s/%s: %s" % (prop, rule, v["detail"][:400]))
        log("VIOLATION property=%s replay=%s" % (prop, path))
        rc = 1 if rc != 2 else rc
    if bad:
        r = bad[0]
        log("HARNESS TROUBLE in %d run(s), e.g. seed=%s status=%s: %s" % (len(bad), (r.get("plan") or {}).get("seed"), r.get("status"), str(r.get("harness") or r.get("output") or "")[:3000]))
        rc = 2 if rc == 0 else rc
    if panics and not cfg.get("panic_is_violation"):
        r = panics[0]
        kn = [k for k in known.get("findings", []) if k.get("rule") == "panic" and any(s in r.get("output", "") for s in k.get("detail_contains", ["\0"]))]
        if kn:
            notes.append("%d run(s) ended in a repo panic listed as known finding %s (property %s); those runs are discarded here" % (len(panics), kn[0]["id"], kn[0]["property"]))
        else:
            log("REPO PANIC in %d run(s) (a verdict only under C06/C19), e.g. seed=%s:\n%s" % (len(panics), (r.get("plan") or {}).get("seed"), r.get("output", "")[-2500:]))
            rc = 2 if rc == 0 else rc
    if busy and prop != "C11":
        kn = [k for k in known.get("findings", []) if k.get("rule") == "busy_loop"]
        fx = [k for k in known.get("fixed", []) if k.get("rule") == "busy_loop"]
        if kn:
            notes.append("%d run(s) ended in a repo busy loop listed as known finding %s (property C11)" % (len(busy), kn[0]["id"]))
        else:
            log("REPO BUSY LOOP in %d run(s) (a verdict only under C11): %s" % (len(busy), busy[0].get("harness")))
            rc = 2 if rc == 0 else rc
    wall = time.time() - t0
    # probes that must not be stuck at zero in the thorough tier
    ev = write_evidence(prop, tier, seed, results, wall, len([1 for _ in new]) if rc == 1 else 0, notes + ["build %.1fs" % bt])
    if tier == "thorough":
        for p in cfg.get("must_hit", []):
            if ev["coverage"]["probe_runs"].get(p, 0) == 0:
                log("PROBE STUCK AT ZERO: %s (thorough tier requires it to fire) -> exit 2" % p)
                rc = 2 if rc == 0 else rc
    st = ev["coverage"]["run_status"]
    log("%s %s: %d runs %s, %d distinct non-trivial, %.1fs wall (%d runs/h), sim %.0fs, faults %s" % (
        prop, tier, len(results), st, ev["coverage"]["distinct_nontrivial"], wall, ev["coverage"]["runs_per_hour"],
        ev["coverage"]["simulated_seconds"], {k: v for k, v in ev["coverage"]["faults_fired"].items() if k.startswith("fault:")}))
    if rc == 0:
        shutil.rmtree(runner.work, ignore_errors=True)
    shutil.rmtree("/tmp/cdc_log", ignore_errors=True)
    return rc


def cmd_replay(prop, path):
    build()
    doc = json.load(open(path))
    plan = doc.get("plan", doc)
    plan["replay"] = True
    wd = os.path.join(WORK, "replay-%s" % prop)
    expect = plan.get("expect", "")
    for attempt in range(int(plan.get("replay_attempts", 1))):
        shutil.rmtree(wd, ignore_errors=True)
        res = run_child(plan, wd, keeplog=True)
        vs = relevant_violations(res, prop)
        if [v for v in vs if not expect or sig_of(v) == expect]:
            break
    for l in (res.get("log") or [])[-int(os.environ.get("VERIF_LOGTAIL", "60")):]:
        log("  " + l)
    if os.environ.get("VERIF_DUMP"):
        for l in res.get("sample") or []:
            log("  D " + str(l))
    log("status=%s log_hash=%s violations=%s" % (res.get("status"), res.get("log_hash"), [sig_of(v) + ": " + v["detail"][:200] for v in vs]))
    if res.get("status") in ("harness_error", "noresult", "timeout", "hang"):
        log(str(res.get("harness") or res.get("output"))[:3000])
        return 2
    hit = [v for v in vs if not expect or sig_of(v) == expect]
    if hit:
        log("VIOLATION property=%s replay=%s" % (prop, path))
        return 1
    return 0


def claimed_props():
    """Properties with a registered check (MANIFEST.json); the others are work in progress."""
    try:
        m = json.load(open(os.path.join(VERIF, "MANIFEST.json")))
        return sorted(c["property_id"] for c in m["checks"] if c["property_id"] in PROPS)
    except Exception:
        return sorted(PROPS)


def cmd_selftest(n_seeds=12, props=None, reps=3):
    """Determinism: every (property, seed) is executed several times at GOMAXPROCS 1/4/16; event-log hashes must agree."""
    build()
    props = props or claimed_props()
    jobs = []
    for prop in props:
        cfg = PROPS[prop]
        variants = cfg.get("variants", [""])
        mix = cfg.get("mix") or [(cfg["rig"], v) for v in variants]
        for i in range(n_seeds):
            seed = 424242 + i * 31 + (hash(prop) % 1000 if False else sum(map(ord, prop)))
            for rep, gmp in enumerate((["1", "4", "16"] * reps)[:reps * 3]):
                jobs.append((prop, seed, mix[i % len(mix)], rep, gmp))
    res = {}

    def one(j):
        prop, seed, (rig, variant), rep, gmp = j
        cfg = PROPS[prop]
        wd = os.path.join(WORK, "selftest", "%s-%d-%d-%s" % (prop, seed, rep, gmp))
        plan = {"rig": rig, "prop": prop, "variant": variant, "seed": seed, "tier": "quick", "log_level": cfg.get("log_level", "")}
        r = run_child(plan, wd, gomaxprocs=gmp)
        shutil.rmtree(wd, ignore_errors=True)
        return (prop, seed), (gmp, r.get("status"), r.get("log_hash"), json.dumps(sorted(sig_of(v) for v in (r.get("violations") or []))))

    for k, v in parallel_map(one, jobs, effective_jobs()):
        res.setdefault(k, []).append(v)
    bad, soft = 0, 0
    for k, vs in sorted(res.items()):
        hashes = set((s, h, vi) for (_, s, h, vi) in vs)
        if len(hashes) != 1:
            if PROPS[k[0]].get("residual_nondeterminism"):
                # whole-server scenarios with data flow: Go's select picks at random among ready cases in loops the
                # hooks do not reach (see DESIGN.md section 7); counted and reported, not a failure of the self-test
                soft += 1
                continue
            bad += 1
            log("NONDETERMINISTIC %s seed=%d: %s" % (k[0], k[1], sorted(set(vs))))
    log("selftest: %d (property, seed) pairs x %d executions, %d diverged%s" % (len(res), reps * 3, bad,
        (" (+%d in whole-server data-flow scenarios with documented residual nondeterminism)" % soft) if soft else ""))
    shutil.rmtree(os.path.join(WORK, "selftest"), ignore_errors=True)
    return 2 if bad else 0


def main():
    ap = argparse.ArgumentParser()
    ap.add_argument("prop", nargs="?")
    ap.add_argument("--tier", default=os.environ.get("VERIF_TIER", "quick"))
    ap.add_argument("--replay")
    ap.add_argument("--setup", action="store_true")
    ap.add_argument("--selftest", action="store_true")
    ap.add_argument("--runs", type=int)
    ap.add_argument("--seeds", type=int, default=12)
    ap.add_argument("--one", type=int, help="run one raw seed (child seed value), shrink its violations of the property and print them")
    ap.add_argument("--viol", help="with --one: shrink violations of this property instead (scenario still generated for <prop>)")
    ap.add_argument("--survey", action="store_true", help="run a batch and print violation counts per rule for ALL properties (no shrinking, no evidence)")
    a = ap.parse_args()
    seed = int(os.environ.get("VERIF_SEED", "1"))
    if a.setup:
        t = build()
        log("built %s in %.1fs" % (BIN, t))
        sys.exit(cmd_selftest(n_seeds=3, reps=1))
    if a.selftest:
        sys.exit(cmd_selftest(n_seeds=a.seeds, props=[a.prop] if a.prop else None))
    if not a.prop:
        ap.error("property id required")
    if a.replay:
        sys.exit(cmd_replay(a.prop, a.replay))
    if a.one is not None:
        build()
        cfg = PROPS[a.prop]
        plan = {"rig": os.environ.get("VERIF_RIG", cfg["rig"]), "prop": a.prop, "variant": os.environ.get("VERIF_VARIANT", cfg.get("variants", [""])[0]), "seed": a.one, "tier": a.tier, "log_level": cfg.get("log_level", "")}
        wd = os.path.join(WORK, "one-%s" % a.prop)
        shutil.rmtree(wd, ignore_errors=True)
        res = run_child(plan, wd, keeplog=True)
        log("status", res.get("status"), [sig_of(v) + ": " + v["detail"][:300] for v in res.get("violations") or []], str(res.get("harness") or res.get("output") or "")[-3000:])
        vp = a.viol or a.prop
        for v in relevant_violations(res, vp):
            mini, ok, tries = shrink(res["plan"], vp, v["rule"], 120, os.path.join(wd, "shrink"))
            mini["expect"] = vp + "/" + v["rule"]
            path = os.path.join(VERIF, "replays", "one-%s-%s-%d.json" % (vp, safe_name(v["rule"]), a.one))
            os.makedirs(os.path.dirname(path), exist_ok=True)
            json.dump({"plan": mini, "violation": v}, open(path, "w"), indent=1)
            log("shrunk (%d runs) -> %s" % (tries, path))
        sys.exit(0)
    if a.survey:
        build()
        runner = Runner(a.prop, a.tier, seed, a.runs or 200, effective_jobs())
        results = runner.run_all()
        cnt, ex, st = {}, {}, {}
        for r in results:
            st[r.get("status")] = st.get(r.get("status"), 0) + 1
            for v in r.get("violations") or []:
                k = sig_of(v)
                cnt[k] = cnt.get(k, 0) + 1
                ex.setdefault(k, ("%s/%s" % ((r.get("plan") or {}).get("seed"), (r.get("plan") or {}).get("variant")), v["detail"][:260]))
            if r.get("status") not in ("ok", "violation"):
                k = "status:" + str(r.get("status"))
                ex.setdefault(k, ((r.get("plan") or {}).get("seed"), str(r.get("harness") or r.get("output"))[-700:]))
        log(st)
        for k in sorted(cnt):
            log("%5d %s   e.g. seed=%s %s" % (cnt[k], k, ex[k][0], ex[k][1]))
        for k in sorted(ex):
            if k.startswith("status:"):
                log(k, ex[k])
        pr = {}
        for r in results:
            for k in (r.get("probes") or {}):
                pr[k] = pr.get(k, 0) + 1
        log("probe runs:", pr)
        sys.exit(0)
    sys.exit(cmd_check(a.prop, a.tier, seed, a.runs))


if __name__ == "__main__":
    main()
