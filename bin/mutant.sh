#!/bin/bash
# usage: mutant.sh <patch.diff> <prop> [<prop>...]   -- applies the patch to /repo, runs quick checks, reverts
patch=$1; shift
cd /repo || exit 2
if [ -n "$(git status --porcelain)" ]; then echo "repo dirty"; exit 2; fi
if ! git apply "$patch" 2>/dev/null; then
  if ! patch -p1 --no-backup-if-mismatch -s < "$patch"; then echo "PATCH DOES NOT APPLY"; git checkout -- .; exit 2; fi
fi
git diff --stat | tail -2
cd /verif
for p in "$@"; do
  VERIF_RUNS=${VERIF_RUNS:-} python3 bin/check.py $p ${RUNS:+--runs $RUNS} 2>&1 | grep -v "^KNOWN-FINDING" | tail -${TAIL:-4}
  echo "  -> $p exit=${PIPESTATUS[0]}"
done
cd /repo && git checkout -- . && git status --porcelain | head -3
