#!/bin/bash
# usage: mutant.sh <patch.diff> <prop> [<prop>...]   -- applies the patch to /repo, runs quick checks, reverts.
# Evidence files and replays written while the patch is applied are discarded (evidence must come from the unchanged tree).
patch=$1; shift
cd /repo || exit 2
if [ -n "$(git status --porcelain)" ]; then echo "repo dirty"; exit 2; fi
if ! git apply "$patch" 2>/dev/null; then
  if ! patch -p1 --no-backup-if-mismatch -s -r - < "$patch"; then echo "PATCH DOES NOT APPLY"; git checkout -- .; git clean -fdq; exit 2; fi
fi
git diff --stat | tail -2
cd /verif
sav=$(mktemp -d /tmp/verif-evsave.XXXX); cp -a evidence replays $sav/
for p in "$@"; do
  python3 bin/check.py $p ${RUNS:+--runs $RUNS} ${TIER:+--tier $TIER} 2>&1 | grep -v "^KNOWN-FINDING" | cut -c1-${WIDTH:-500} | tail -${TAIL:-4}
  echo "  -> $p exit=${PIPESTATUS[0]}"
done
rm -rf evidence replays; mv $sav/evidence $sav/replays .; rmdir $sav
cd /repo && git checkout -- . && git status --porcelain | head -3
