#!/usr/bin/env python3
"""setcaught.py <ID-n> <text>: records which check catches a seeded change in its meta.json"""
import json, sys
p = "/verif/seeded/%s/meta.json" % sys.argv[1]
m = json.load(open(p)); m["caught_by"] = sys.argv[2]; json.dump(m, open(p, "w"), indent=1)
