#!/bin/bash
# usage: thorough_all.sh ID...  -- runs the thorough tier of the given properties one after the other; summary lines in /tmp/thorough.log,
# full output in /tmp/th_<ID>.log
export GOFLAGS=-mod=mod GOPROXY=off GOSUMDB=off GOTOOLCHAIN=local
cd /verif
for p in "$@"; do
  echo "=== $p $(date +%H:%M:%S)" >> /tmp/thorough.log
  python3 bin/check.py $p --tier thorough > /tmp/th_$p.log 2>&1
  echo "rc=$? $(grep -c '^VIOLATION' /tmp/th_$p.log) violations; $(grep -v '^KNOWN' /tmp/th_$p.log | tail -n1 | cut -c1-180)" >> /tmp/thorough.log
done
echo ALLDONE >> /tmp/thorough.log
