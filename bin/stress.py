import sys,json,os,shutil,collections
import concurrent.futures as cf
sys.path.insert(0,'/verif/bin')
import check
from props import PROPS
prop=sys.argv[1]; seed=int(sys.argv[2]); n=int(sys.argv[3])
cfg=PROPS[prop]
def one(i):
    wd='/verif/.work/stress/%d'%i
    shutil.rmtree(wd,ignore_errors=True)
    plan={"rig":cfg["rig"],"prop":prop,"seed":seed,"tier":"quick","variant":cfg.get("variants",[""])[0],"log_level":cfg.get("log_level","")}
    r=check.run_child(plan,wd,keeplog=True,gomaxprocs=["1","4","16"][i%3])
    return r.get('status'),r.get('log_hash'),r
c=collections.Counter(); ex={}
with cf.ThreadPoolExecutor(16) as e:
    for st,h,r in e.map(one,range(n)):
        c[(st,h)]+=1; ex.setdefault((st,h),r)
print(c)
ks=[k for k,_ in c.most_common()]
if len(ks)>1:
    a,b=ex[ks[0]].get('log') or [],ex[ks[1]].get('log') or []
    for i,(x,y) in enumerate(zip(a,b)):
        if x!=y:
            print('\n'.join(a[max(0,i-15):i+4])); print('-----'); print('\n'.join(b[max(0,i-2):i+4])); break
    else: print("prefix equal; lens",len(a),len(b))
