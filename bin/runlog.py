#!/usr/bin/env python3
"""runlog.py PROP SEED VARIANT [pattern|pattern...] : run one generated seed (no shrinking) and print the filtered event log"""
import sys, os, json, shutil
sys.path.insert(0, '/verif/bin')
import check
from props import PROPS
prop, seed, variant = sys.argv[1], int(sys.argv[2]), sys.argv[3]
pats = sys.argv[4].split('|') if len(sys.argv) > 4 else None
cfg = PROPS[prop]
check.build()
wd = '/verif/.work/runlog'
shutil.rmtree(wd, ignore_errors=True)
plan = {"rig": cfg["rig"], "prop": prop, "seed": seed, "tier": "quick", "variant": variant}
if os.environ.get("DEBUGLOG"):
    r0 = check.run_child(dict(plan), wd + '0', keeplog=True)
    plan = r0['plan']; plan['script']['knobs']['log_debug'] = True; plan['replay'] = True
r = check.run_child(plan, wd, keeplog=True)
print('status', r.get('status'), [v['property'] + '/' + v['rule'] + ': ' + v['detail'][:300] for v in r.get('violations') or []])
sc = (r.get('plan') or {}).get('script') or {}
print('knobs', sc.get('knobs'), 'faults', sc.get('faults'), 'msg_faults', sc.get('msg_faults'))
for o in sc.get('ops', []): print('  op', json.dumps(o)[:200])
for c in sc.get('colls', []): print('  coll', json.dumps(c)[:200])
for l in r.get('log') or []:
    if 'zclk' in l: continue
    if pats is None or any(p in l for p in pats): print(l[:260])
if r.get('status') in ('hang', 'panic', 'harness_error', 'noresult'): print(str(r.get('harness') or r.get('output'))[:6000])
