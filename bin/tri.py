#!/usr/bin/env python3
"""triage helper: tri.py PROP SEED VARIANT [VIOLPROP] -> shrinks and prints script + filtered trace of each replay"""
import sys, os, json, glob, subprocess
prop, seed, variant = sys.argv[1], sys.argv[2], sys.argv[3]
viol = sys.argv[4] if len(sys.argv) > 4 else prop
env = dict(os.environ, VERIF_VARIANT=variant)
for f in glob.glob('/verif/replays/one-%s-*-%s.json' % (viol, seed)):
    os.remove(f)
out = subprocess.run(['python3', '/verif/bin/check.py', prop, '--one', seed, '--viol', viol], env=env, capture_output=True, text=True).stdout
print('\n'.join(l[:600] for l in out.splitlines() if l.startswith('status')))
for f in sorted(glob.glob('/verif/replays/one-%s-*-%s.json' % (viol, seed))):
    p = json.load(open(f)); pl = p['plan']; sc = pl['script']
    print('==', os.path.basename(f)); print('  ', p['violation']['detail'][:900])
    print('   knobs', {k: sc['knobs'][k] for k in ('backend', 'max_task_num', 'crashes', 'retry_times')}, 'faults', sc['faults'], 'tape', pl['tape'])
    for o in sc['ops']:
        print('     ', json.dumps(o)[:220])
    print('   hist', [(h['k'], (h.get('cat') or {}).get('w'), (h.get('cat') or {}).get('n')) for h in sc['history']][:30])
    if os.environ.get('TRACE'):
        t = subprocess.run(['python3', '/verif/bin/check.py', viol, '--replay', f], env=dict(env, VERIF_LOGTAIL='600'), capture_output=True, text=True).stdout
        pats = os.environ['TRACE'].split('|')
        for l in t.splitlines():
            if any(x in l for x in pats) and 'clk:0500' not in l:
                print('     |', l[:200])
