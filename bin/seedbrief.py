#!/usr/bin/env python3
"""seedbrief.py ID WAVE : creates the scratch worktree /tmp/seed-ID-WAVE of /repo (if missing) and writes the brief for a
sub-agent into it (_seeded/BRIEF.md): the property text and the rules, nothing about the checks."""
import json, os, subprocess, sys
id, wave = sys.argv[1], sys.argv[2]
focus = sys.argv[3] if len(sys.argv) > 3 else ""
wt = f"/tmp/seed-{id}-{wave}"
if not os.path.isdir(wt):
    subprocess.check_call(["git", "-C", "/repo", "worktree", "add", "-q", "--detach", wt, "HEAD"])
props = {json.loads(l)['id']: json.loads(l) for l in open('/verif/properties.jsonl')}
p = props[id]
earlier = []
n = 1
while os.path.isdir(f"/verif/seeded/{id}-{n}"):
    try:
        s = json.load(open(f"/verif/seeded/{id}-{n}/meta.json")).get("summary", "")
        if s and not s.startswith("##"):
            earlier.append(s[:260])
        else:
            # first paragraph of the notes
            t = [x for x in open(f"/verif/seeded/{id}-{n}/notes.md").read().split("\n\n") if x.strip() and not x.strip().startswith("#")]
            t = [" ".join(l for l in x.splitlines() if not l.strip().startswith("#")) for x in t] or [""]
            earlier.append(" ".join(t[0].split())[:300])
    except Exception:
        pass
    n += 1
el = "\n".join(f"   ({i+1}) {e}" for i, e in enumerate(earlier)) or "   (none)"
brief = f"""You are helping test a verification effort for the Go project zilliztech/milvus-cdc (a change-data-capture service for Milvus). You work ONLY inside your own scratch git worktree of the project at {wt} (a detached checkout of the current commit). Do not read or write anything under /verif or /repo, and do not look at any other /tmp/seed-* directory.

The project is supposed to satisfy this semantic property (id {id}):

TITLE: {p['title']}
STATEMENT: {p['statement']}
QUANTIFIER: {p['quantifier']['text']}
ANCHORS (where the property lives in the code): files {p['anchors']['files']}; mechanisms: {json.dumps(p['anchors'].get('mechanism'))}

Your task: make ONE realistic source change in the worktree (the kind of change a developer could plausibly make: a refactoring slip, a tidy-up, an optimisation, a wrong comparison, a moved line, a missing lock, a changed default...) that BREAKS this property, while
 (1) the project still compiles (cd core && go build ./... ; cd server && go build ./...),
 (2) the existing unit tests of the touched packages pass or fail exactly as they did before your change (many tests need etcd/Pulsar/MySQL and fail or hang on the unchanged tree as well: compare before/after, per test with -run if a package aborts; use -vet=off),
 (3) the breakage needs something specific to manifest - a particular input shape, interleaving, fault, crash point, restart or history - so that ordinary smoke use and the existing tests do not show it. A change that breaks the property on every input is NOT wanted; neither is a change far away from the property's code that merely crashes.
{("Preferred focus for this change: " + focus + chr(10)) if focus else ""}Be subtle, and be different from these earlier changes made for the same property (prefer another function / mechanism):
{el}

Environment: no network. Use `export GOFLAGS=-mod=mod GOPROXY=off GOSUMDB=off` in every shell call; the default `go` (1.23) builds the modules {wt}/core and {wt}/server (server replaces core with ../core). Do not use the `verif` build tag. Unit tests that need external services fail or hang: use `-run` with specific tests and `-timeout 120s`.

Deliverables, all inside {wt}/_seeded/ :
 - patch.diff : `git diff` of your source change only (NOT including the demo test), applicable with `git apply` at the worktree's HEAD.
 - zz_seeded_demo_test.go : a copy of a self-contained Go test (no external services; use the repo's mocks/fakes where needed) named TestSeededDemo... that you also place in the touched package directory; it must PASS on the unchanged code and FAIL with your change, demonstrating the violation of the property as stated (not an implementation detail). State the exact command to run it.
 - notes.md : (a) summary of the change (file, function, what, why it looks innocent), (b) what is needed for the breakage to manifest, (c) how it violates the property, (d) commands you ran and their results (build, touched packages' tests before/after, demo with and without the change).
Leave the worktree with the change applied and the demo test in place. Do not commit. Finish with a short report (5-10 lines).
"""
os.makedirs(wt + "/_seeded", exist_ok=True)
open(wt + "/_seeded/BRIEF.md", "w").write(brief)
print(wt + "/_seeded/BRIEF.md")
