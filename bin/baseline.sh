#!/bin/bash
# Runs the repository's pinned test suite with the verif guard OFF on /repo's working tree and compares the
# set of passing tests with /root/.vp/BASELINE.json (stable_pass). Exit 0 iff every stable test still passes.
out=$(mktemp /tmp/baseline.XXXX.json)
export GOFLAGS= GOPROXY=off GOSUMDB=off
for m in $(cat /w/out/gomods.txt); do MF=$(cd /repo/$m && . /w/out/goenv.sh && gomodflag); (cd /repo/$m && go test $MF -json -vet=off -count=1 -timeout 25m ./... ); done > $out 2>/dev/null
python3 - $out <<'P'
import json,sys
base=set(json.load(open('/root/.vp/BASELINE.json'))['stable_pass'])
ok=set()
for l in open(sys.argv[1]):
    try: d=json.loads(l)
    except Exception: continue
    if d.get('Action')=='pass' and d.get('Test'):
        ok.add(d['Package']+'::'+d['Test'])
miss=sorted(base-ok)
print('baseline stable tests: %d, passing now: %d, missing: %d'%(len(base),len(base&ok),len(miss)))
for m in miss[:40]: print('  MISSING',m)
sys.exit(1 if miss else 0)
P
rc=$?; rm -f $out; exit $rc
