"""Per-property check configuration (rig, run counts, probes, evidence text)."""

R_REAL = "rig R: real replicateChannelManager/handler, tsManager, Barrier, ChannelMapping, stream creator, ReplicateMeteImpl; simulated MQ dispatcher, downstream catalog, source catalog stub; harness plays the server side."

PROPS = {
    "C01": dict(
        rig="R", runs=dict(quick=2000, thorough=60000),
        nontrivial_probes=["equal_ts_group", "begin_ts_zero_pack", "tick_only_source_pack", "late_partition_message", "forwarded_pack"],
        must_hit=["equal_ts_group", "begin_ts_zero_pack", "tick_only_source_pack", "late_partition_message", "filtered_both_sides_dropped"],
        rule="Seeded generator draws catalog (1-3 collections x 1-2 shards over 1-3 shared pchannels, partitions pre-existing/late/dropped), per-pchannel logs (insert/delete/equal-ts pairs/create*/drop*/unsupported/ticks/double ticks) and scheduler tape; every seam call, delivery, queue receive, operator call and clock advance is one scheduled action.",
        assumptions=[R_REAL, "SimMQ models MqTtMsgStream+msgdispatcher pack construction (BeginTs=0 on first pack, shared positions, DDL fan-out by collection id)", "completeness is judged after a fault-free drain of at least 60 simulated seconds of idleness"],
    ),
    "C02": dict(
        rig="R", runs=dict(quick=2000, thorough=60000),
        nontrivial_probes=["forwarded_pack", "late_partition_message", "queue_shared_by_collections"],
        must_hit=["forwarded_pack", "late_partition_message"],
        rule="Same generator as C01 with free downstream placement in half of the runs (downstream shards on differently named / differently shared pchannels, forward path) and late-published partition ids.",
        assumptions=[R_REAL, "placements are deliverable (equal channel counts)"],
    ),
    "C03": dict(
        rig="R", runs=dict(quick=2000, thorough=60000),
        nontrivial_probes=["queue_shared_by_collections"],
        must_hit=["queue_shared_by_collections"],
        rule="2-3 collections multiplexed on one downstream pchannel, yield hooks between collect/compute/enqueue enabled in 80% of runs, clock advances interleaved so that tick-only packs are emitted or suppressed.",
        assumptions=[R_REAL, "restart/resume part of the property is exercised by the server rig checks, not here"],
    ),
    "C04": dict(
        rig="R", runs=dict(quick=2000, thorough=60000),
        nontrivial_probes=["multi_shard_barrier_fired", "drop_event_ts_checked", "stop_issued"],
        must_hit=["multi_shard_barrier_fired", "stop_issued"],
        rule="Collections with 1-3 shards, drop-partition/drop-collection at the source with scheduler-chosen shard order, AddPartition racing stream registration, stops.",
        assumptions=[R_REAL],
    ),
    "C20": dict(
        rig="R", runs=dict(quick=2000, thorough=60000),
        nontrivial_probes=["drop_event_ts_checked"],
        must_hit=["drop_event_ts_checked"],
        rule="Event part of the property on rig R: create/drop collection/partition events and their replication stamp; barrier wake-up ordered by the scheduler.",
        assumptions=[R_REAL],
    ),
    "C12": dict(
        rig="ST", variants=["etcd", "mysql"], runs=dict(quick=3000, thorough=100000),
        nontrivial_probes=["op_with_fault", "task_deleted", "marked_dropped"],
        must_hit=["op_with_fault", "task_deleted", "marked_dropped", "multi_root"],
        rule="Seeded operation sequences (6-22 ops) over the public store functions on 2-3 root paths sharing one backend, task/collection ids that are prefixes of one another or contain LIKE pattern characters; up to 3 injected store faults (error before / after apply) placed by the tape at any backend call.",
        assumptions=["rig ST: real store.* functions and both backends' store objects; etcd server replaced by SimEtcd (MVCC map behind clientv3.KV), MySQL server by SimSQL (database/sql driver executing the exact statement shapes incl. LIKE semantics)", "identifiers never differ only in case or trailing blanks; ids contain no '/'", "state is observed through the public read API after every operation"],
    ),
    "C17": dict(
        rig="ST", variants=["etcd", "mysql", "memory"], runs=dict(quick=3000, thorough=100000),
        nontrivial_probes=["three_or_more_reports", "reload", "removed_existing_part", "removed_existing_coll"],
        must_hit=["three_or_more_reports", "reload", "removed_existing_part", "removed_existing_coll", "became_ready"],
        rule="Seeded sequences of shard reports (1-5 shards, duplicates, any order) over 2 tasks x 1-3 messages interleaved with removals and reloads (new ReplicateMeteImpl over the same store = crash point).",
        assumptions=["rig ST: real meta.ReplicateMeteImpl over the real etcd / MySQL replicate stores (on SimEtcd / SimSQL) or an in-memory store"],
    ),
    "C14": dict(
        rig="P", runs=dict(quick=3000, thorough=100000),
        nontrivial_probes=["batch_of_several", "all_empty_checked"],
        must_hit=["batch_of_several", "all_empty_checked", "clear"],
        rule="1-3 batchers sharing the global memory budget, each driven by its own goroutine through a seeded list of packs (sizes 0..6000 bytes) and shutdown flushes; thresholds (count, size, age, global memory) randomised per run; the scheduler interleaves receives, parked callbacks (with injected failures) and clock advances of 10 ms..10 s.",
        assumptions=["rig P: real msgpacker.Packer, checkers and the global MemoryProtector inside a synctest bubble; the write callback is scripted"],
    ),
}
