"""Per-property check configuration (rig, run counts, probes, evidence text)."""

R_REAL = "rig R: real replicateChannelManager/handler, tsManager, Barrier, ChannelMapping, stream creator, ReplicateMeteImpl; simulated MQ dispatcher, downstream catalog, source catalog stub; harness plays the server side."

PROPS = {
    "C01": dict(
        rig="R", runs=dict(quick=2000, thorough=60000),
        nontrivial_probes=["equal_ts_group", "begin_ts_zero_pack", "tick_only_source_pack", "late_partition_message", "forwarded_pack"],
        must_hit=["equal_ts_group", "begin_ts_zero_pack", "tick_only_source_pack", "late_partition_message", "filtered_both_sides_dropped", "foreign_stream_pack_fewer_source_channels"],
        rule="Seeded generator draws catalog (1-3 collections x 1-2 shards over 1-3 shared pchannels, partitions pre-existing/late/dropped), per-pchannel logs (insert/delete/equal-ts pairs/create*/drop*/unsupported/ticks/double ticks) and scheduler tape; every seam call, delivery, queue receive, operator call and clock advance is one scheduled action.",
        assumptions=[R_REAL, "SimMQ models MqTtMsgStream+msgdispatcher pack construction (BeginTs=0 on first pack, shared positions, DDL fan-out by collection id)", "completeness is judged after a fault-free drain of at least 60 simulated seconds of idleness"],
    ),
    "C02": dict(
        rig="R", runs=dict(quick=2000, thorough=60000),
        nontrivial_probes=["forwarded_pack", "late_partition_message", "queue_shared_by_collections"],
        must_hit=["forwarded_pack", "late_partition_message"],
        rule="Same generator as C01 with free downstream placement in half of the runs (downstream shards on differently named / differently shared pchannels, forward path) and late-published partition ids.",
        assumptions=[R_REAL, "placements are deliverable (equal channel counts)"],
    ),
    "C03": dict(
        rig="R", residual_nondeterminism=True, mix=[("R", ""), ("R", ""), ("R", ""), ("S", "etcd"), ("S", "mysql")], runs=dict(quick=2500, thorough=60000),
        nontrivial_probes=["queue_shared_by_collections", "S_ack_time_checked"],
        must_hit=["queue_shared_by_collections", "S_ack_time_checked", "restart", "reg_resume"],
        rule="2-3 collections multiplexed on one downstream pchannel, yield hooks between collect/compute/enqueue enabled in 80% of runs, clock advances interleaved so that tick-only packs are emitted or suppressed.",
        assumptions=[R_REAL, "restart/resume part of the property is exercised by the server rig checks, not here"],
    ),
    "C04": dict(
        rig="R", mix=[("R", ""), ("R", ""), ("S", "etcd"), ("S", "mysql")], runs=dict(quick=2400, thorough=60000),
        nontrivial_probes=["multi_shard_barrier_fired", "drop_event_ts_checked", "stop_issued", "S_drop_checked"],
        must_hit=["multi_shard_barrier_fired", "stop_issued", "S_drop_checked", "S_drop_liveness_checked", "S_dropped_while_down", "S_partition_drop_checked", "S_partition_drop_liveness_checked", "S_request_in_pdrop_window", "restart"],
        rule="Collections with 1-3 shards, drop-partition/drop-collection at the source with scheduler-chosen shard order, AddPartition racing stream registration, stops.",
        assumptions=[R_REAL],
    ),
    "C20": dict(
        rig="R", mix=[("R", ""), ("WD", "")], runs=dict(quick=3000, thorough=100000),
        nontrivial_probes=["drop_event_ts_checked", "applied_op", "applied_api", "malformed_pack"],
        must_hit=["drop_event_ts_checked", "applied_op", "applied_api", "malformed_pack", "dropped_partition_removed_from_list"],
        rule="Half of the runs on rig R (event part: create/drop collection/partition events produced by the reader and their replication stamp, barrier wake-up ordered by the scheduler), half on rig WD (writer part: every op-message kind and the four API events through the real ChannelWriter against a simulated downstream; one request per non-skipped message with identity fields, replication mark and source time; partition lists with dropped members; malformed packs).",
        assumptions=[R_REAL, "rig WD: see C08"],
    ),
    "C12": dict(
        rig="ST", variants=["etcd", "mysql"], runs=dict(quick=3000, thorough=100000),
        nontrivial_probes=["op_with_fault", "task_deleted", "marked_dropped"],
        must_hit=["op_with_fault", "task_deleted", "marked_dropped", "multi_root"],
        rule="Seeded operation sequences (6-22 ops) over the public store functions on 2-3 root paths sharing one backend, task/collection ids that are prefixes of one another or contain LIKE pattern characters; up to 3 injected store faults (error before / after apply) placed by the tape at any backend call.",
        assumptions=["rig ST: real store.* functions and both backends' store objects; etcd server replaced by SimEtcd (MVCC map behind clientv3.KV), MySQL server by SimSQL (database/sql driver executing the exact statement shapes incl. LIKE semantics)", "identifiers never differ only in case or trailing blanks; ids contain no '/'", "state is observed through the public read API after every operation"],
    ),
    "C17": dict(
        rig="ST", variants=["etcd", "mysql", "memory"], runs=dict(quick=3000, thorough=100000),
        nontrivial_probes=["three_or_more_reports", "reload", "removed_existing_part", "removed_existing_coll"],
        must_hit=["three_or_more_reports", "reload", "removed_existing_part", "removed_existing_coll", "became_ready"],
        rule="Seeded sequences of shard reports (1-5 shards, duplicates, any order) over 2 tasks x 1-3 messages interleaved with removals and reloads (new ReplicateMeteImpl over the same store = crash point).",
        assumptions=["rig ST: real meta.ReplicateMeteImpl over the real etcd / MySQL replicate stores (on SimEtcd / SimSQL) or an in-memory store"],
    ),
    "C14": dict(
        rig="P", runs=dict(quick=3000, thorough=100000),
        nontrivial_probes=["batch_of_several", "all_empty_checked"],
        must_hit=["batch_of_several", "all_empty_checked", "clear"],
        rule="1-3 batchers sharing the global memory budget, each driven by its own goroutine through a seeded list of packs (sizes 0..6000 bytes) and shutdown flushes; thresholds (count, size, age, global memory) randomised per run; the scheduler interleaves receives, parked callbacks (with injected failures) and clock advances of 10 ms..10 s.",
        assumptions=["rig P: real msgpacker.Packer, checkers and the global MemoryProtector inside a synctest bubble; the write callback is scripted"],
    ),
    "C07": dict(
        rig="W7", runs=dict(quick=3000, thorough=100000),
        nontrivial_probes=["concurrent_channels", "tick_converted", "name_mapped"],
        must_hit=["concurrent_channels", "tick_converted", "name_mapped", "several_end_positions", "restamped_drop_message"],
        rule="1-3 downstream channels each driven by its own goroutine through 1-5 generated packs (insert/delete/drop-partition/drop-collection/ticks, opening tick on first pack; a quarter of the packs list several end positions whose times are not increasing or missing), with/without replicate id, five name-mapping shapes, Map.Range order fixed per run; the downstream call is parked, so the scheduler interleaves the channels and decides completion order; up to 2 injected downstream rejections.",
        assumptions=["rig W7: real ChannelWriter.HandleReplicateMessage and replicateMessageManager; bytes are decoded with Milvus' ProtoUDFactory dispatcher; the downstream is a recording api.DataHandler", "equality is judged on the serialized request (after the reference name mapping) plus decoded begin/end timestamps"],
    ),
    "C08": dict(
        rig="WD", runs=dict(quick=3000, thorough=100000),
        nontrivial_probes=["stale_operation", "stale_operation_newer_incarnation_present", "applied_op", "applied_api"],
        must_hit=["stale_operation", "stale_operation_newer_incarnation_present", "applied_op", "applied_api", "drop_completed_before_request_executed"],
        rule="Seeded source histories (8-26 create/drop/re-create events on databases, collections, partitions plus op messages of every kind), a start point with a start-up snapshot of dropped objects and a replayed op-message prefix, API events and op messages delivered by two concurrent streams whose relative progress the scheduler chooses (drops may overtake older operations), injected downstream rejections with re-delivery.",
        assumptions=["rig WD: real ChannelWriter (HandleOpMessagePack, HandleReplicateAPIEvent, readiness cascade, getObjState) over a simulated downstream catalog that tags every object with the source incarnation that created it", "an operation is only delivered after the creation of the objects it refers to was handled; the start-up snapshot is built as the property C15 describes it"],
    ),
    "C09": dict(
        rig="WD", runs=dict(quick=3000, thorough=100000),
        nontrivial_probes=["mapped_call", "exact_and_wildcard_mapping"],
        must_hit=["mapped_call", "exact_and_wildcard_mapping", "drop_completed_before_request_executed"],
        rule="Same histories as C08, always with a name mapping (exact, whole-database, both for one source database, unrelated), source database default / empty / other, Map.Range iteration order chosen per run through the verif hook; every downstream call (18 op kinds, 4 API events, 3 readiness probes) is compared with the reference mapping. The 5 DML message types are covered by the C07 check (same mapping function, same shapes).",
        assumptions=["rig WD: see C08", "for database-level operations on a source database that has only collection-level entries the property does not fix the target name: the source name and the target database of any such entry are accepted"],
    ),
    "C16": dict(
        rig="R", runs=dict(quick=2000, thorough=60000),
        nontrivial_probes=["unequal_counts", "quota_reached", "two_or_more_assignments"],
        must_hit=["unequal_counts", "quota_reached", "two_or_more_assignments"],
        rule="Rig R with SourceChannelNum != TargetChannelNum (1-4 source, 1-4 downstream channels, both directions and equal), 2-5 collections whose shards the downstream places on channels of its own choice; starts are serialised, their order and the progress of the wait/forward goroutines (5 s tickers under the simulated clock) are the scheduler's. The assignment table is read through the verif accessor after every step.",
        assumptions=[R_REAL, "totality is not judged: a source channel whose only offered downstream channels are full waits, which the property does not exclude"],
    ),
    "C13": dict(
        rig="C", mix=[("C", ""), ("C", ""), ("C", ""), ("R", "")], runs=dict(quick=3200, thorough=100000),
        nontrivial_probes=["live_collection", "live_partition", "notified_twice", "creating_to_dropped", "R_second_announcement_checked"],
        must_hit=["live_collection", "live_partition", "notified_twice", "creating_to_dropped", "R_second_announcement_checked"],
        rule="A generated rootcoord write sequence (databases, collections creating->created/creating->tombstone/dropping/tombstone, re-created names, partitions in every state) is applied to a simulated etcd partly before and partly - one write per scheduler action - during the reader's subscribe / open watch / list databases / list collections / fill fields / list partitions / start-watch steps, each of which is a parked etcd call; watch batches are delivered as scheduler actions; 1-2 tasks share one EtcdOp with Map.Range order fixed per run; up to 2 injected read errors.",
        assumptions=["rig C: real CollectionReader and EtcdOp over SimEtcd; the channel manager is a recording stub, so 'no further effect of a second notification' is judged in the rig R / server checks, here only that notifications are not lost, not misattributed and never given for objects that were never created", "a watch is effective from the moment Watch() returns (registration lag is not injected)"],
    ),
}

S_REAL = 'rig S: the whole service in one bubble - real server.MetaCDC with its HTTP handler, meta stores, packer, write callback, reader (CollectionReader, ChannelReader, EtcdOp, replicateChannelManager, TargetClient) and writer (ChannelWriter, MilvusDataHandler); simulated source etcd, metadata etcd/MySQL, message queue + dispatcher, downstream Milvus behind the SDK client interface; one OS process per CDC incarnation, the world is carried over a crash in a state file.'

PROPS.update({
    "C10": dict(
        rig="S", variants=["etcd", "mysql"], runs=dict(quick=1500, thorough=50000),
        nontrivial_probes=["ownership_checked", "bookkeeping_checked", "rejected_request"],
        must_hit=["ownership_checked", "bookkeeping_checked", "rejected_request", "restart"],
        rule="Seeded operator sequences (4-14 create/pause/resume/delete/get/list requests over 2 downstreams, every specification shape db in {default form, default, dbx, *} x collection in {named, *}, name mappings, user-role flag, auto-start flag), store and downstream-query faults at any parked call, one crash+restart in half of the runs. After every answered request (at the next quiescent point) and after the reload: the stream selection (GetShouldReadFunc) and the DDL-message selection (GetCollectionInfos+MatchCollection) of every persisted task are evaluated over a 3x4 universe of (database, collection) names.",
        assumptions=[S_REAL, "selection is evaluated through the exported pure functions on the persisted task records; the universe is {default, dbx, other} x {c1, c2, c3, zz}", "bookkeeping equality is judged as sets per downstream (names, exclusions, user-role owner) against what the persisted tasks imply"],
    ),
    "C11": dict(
        rig="S", residual_nondeterminism=True, variants=["etcd", "mysql"], runs=dict(quick=3000, thorough=50000),
        nontrivial_probes=["quiescent_check", "reload_checked"],
        must_hit=["quiescent_check", "reload_checked", "rejected_request"],
        rule="Same operator sequences as C10; after every answered request, at the next quiescent point, the state shown by get, the persisted record, the in-memory table and the per-state gauges are compared for every task known to any of them; per-target reference counts and stop functions against the running tasks; registered streams against running tasks; the store is searched for leftovers of deleted tasks; after a restart every persisted task must be in memory and Running or Paused per its auto-start flag.",
        assumptions=[S_REAL, "transition legality is judged only for requests during which no fault was injected and for tasks not hit by a crash in flight"],
    ),
    "C19": dict(
        rig="S", variants=["etcd", "mysql"], runs=dict(quick=1500, thorough=50000), panic_is_violation=True,
        nontrivial_probes=["rejected_request", "reject_side_effect_checked"],
        must_hit=["rejected_request", "reject_side_effect_checked"],
        rule="Operator sequences as in C10 with 3-8 raw requests inserted at random positions: 38 hand-written malformed / semantically invalid bodies (names with separators, undecodable and foreign positions, negative limits, conflicting targets, wrong JSON types) and random byte strings, 8% with a non-POST method. Every response must parse as JSON with code 200/400/500 (405 for non-POST); invalid creates must not be answered 200; for every rejected request without an injected fault the bookkeeping snapshot and the complete store content before and after are compared.",
        assumptions=[S_REAL, "a panic of the child process counts as a violation (no recover in the harness)", "the before-image is taken only when no seam call is in flight"],
    ),
    "C18": dict(
        rig="S", variants=["etcd", "mysql"], runs=dict(quick=600, thorough=20000),
        nontrivial_probes=["rejected_request", "quiescent_check"],
        must_hit=["rejected_request", "quiescent_check"],
        rule="Operator sequences as in C10 with credential canaries in every create (token, or user+password); log level debug, file descriptor 1 of the child redirected to a file that is scanned after the run; every HTTP response body (operator requests and the harness' own get calls) is scanned as it is produced; store / downstream faults and one crash+reload in part of the runs.",
        assumptions=[S_REAL, "Kafka downstream (SASL secrets) is not simulated: librdkafka's poller thread keeps a bubble from going idle", "only what the service writes through its zap logger to stdout is seen"],
    ),
    "C05": dict(
        rig="S", residual_nondeterminism=True, variants=["etcd", "mysql"], runs=dict(quick=2400, thorough=40000),
        nontrivial_probes=["checkpoint_checked", "liveness_checked", "reg_resume"],
        must_hit=["checkpoint_checked", "liveness_checked", "reg_resume", "restart", "recovery_phase", "recovery_liveness_checked", "recovery_streams_checked"],
        rule="Source histories of 4-16 rounds (inserts/deletes on 1-3 collections x 1-2 shards, collection created / dropped mid-run, op messages, ticks) published one event per scheduler action while 1-2 tasks replicate to 1-2 downstreams; downstream write rejections, store errors (before/after apply) and DDL rejections at any parked call; pause/resume; 0-2 crashes with restart from the persisted world. After every store change each persisted checkpoint is compared with the downstream's acknowledgement log; every stream registration is compared with what it skips; at the end (fault-free drain) every message of a running task's streams must have been acknowledged.",
        assumptions=[S_REAL, "the replication domain of a stream starts at its first registration without a position (latest) or at the start position it was first given"],
    ),
    "C06": dict(
        rig="S", residual_nondeterminism=True, mix=[("S", "etcd"), ("S", "mysql"), ("S", "etcd"), ("S", "mysql"), ("R", "")], runs=dict(quick=2400, thorough=40000), panic_is_violation=True,
        nontrivial_probes=["task_paused_by_failure", "liveness_checked", "rejected_write_checked"],
        must_hit=["task_paused_by_failure", "liveness_checked", "rejected_write_checked", "R_unknown_partition_reported", "recovery_phase", "recovery_liveness_checked", "recovery_streams_checked", "event_queue_full"],
        rule="Same scenarios as C05 without crashes; the first-acknowledgement order per stream must be gap-free, a Paused task must show a reason, tasks end Paused only if a failure was injected, the four state views agree at the end, and the process must survive.",
        assumptions=[S_REAL, "a panic of the child process counts as a violation"],
    ),
})
