#!/bin/bash
# run.sh <arguments of bin/check.py>
# Starts the driver with the system interpreter (one process: the pyenv shim of `python3` needs several) and starts it again
# when the machine refuses the process - the checks of all properties may be started side by side on a machine with a small
# process allowance, and the ones that come last then cannot even start an interpreter. Exit codes 0 / 1 / 2 are the driver's
# own and are passed on; anything else (the shell could not start the interpreter, the interpreter died before the driver
# ran) is tried again for up to about six minutes, with the exploration budget of the check shortened by the time lost.
here=$(cd "${BASH_SOURCE[0]%/*}" && pwd -P)
py=/usr/bin/python3
[ -x "$py" ] || py=python3
start=$SECONDS
budget=${VERIF_BUDGET_S:-}
for ((i = 0; i < 60; i++)); do
  waited=$((SECONDS - start))
  if [ -z "$budget" ] && [ "$waited" -gt 20 ]; then
    b=$((420 - waited / 2)); [ "$b" -lt 150 ] && b=150
    export VERIF_BUDGET_S=$b
  fi
  "$py" "$here/check.py" "$@"
  rc=$?
  case $rc in 0 | 1 | 2 | 130 | 137 | 143) exit $rc ;; esac
  [ $((SECONDS - start)) -gt 360 ] && break
  echo "run.sh: the driver could not be started (exit $rc); trying again" >&2
  until=$((SECONDS + 5 + i))
  sleep $((5 + i)) 2>/dev/null || while ((SECONDS < until)); do :; done
done
echo "run.sh: giving up: the machine did not let the driver start (exit 2)" >&2
exit 2
