import json,sys
d=json.load(open(sys.argv[1]))
p=d['plan']
print(d['violation'])
sc=p['script']
print(json.dumps(sc.get('knobs')))
for c in sc.get('colls',[]): print(c['id'],c['name'],c['db'],c['srcv'],c['tgtv'],'pre',c['pre'],'seeknil',c['seek_nil'],c['state'],c['create_ts']%1000000000,[ (x['id'],x['name'],x['pre_target'],x['state'],x['late']) for x in c['parts']])
for k,v in sc.get('log',{}).items(): print(k,[(e['seq'],e['k'],e['ts']%1000000000,e.get('c'),e.get('s'),e.get('p'),e.get('tag')) for e in v])
print(sc.get('ops'), sc.get('faults'), p.get('tape'))
