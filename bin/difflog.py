import sys,json,os,shutil,subprocess
sys.path.insert(0,'/verif/bin')
import check
from props import PROPS
prop=sys.argv[1]; seed=int(sys.argv[2]); n=int(sys.argv[3]) if len(sys.argv)>3 else 8
cfg=PROPS[prop]
logs={}
for i in range(n):
    wd='/verif/.work/difflog/%d'%i
    shutil.rmtree(wd,ignore_errors=True)
    plan={"rig":cfg["rig"],"prop":prop,"seed":seed,"tier":"quick","variant":cfg.get("variants",[""])[0]}
    r=check.run_child(plan,wd,keeplog=True,gomaxprocs=os.environ.get("GMP","1"))
    logs.setdefault(r.get('log_hash'),r.get('log') or [])
print(list(logs))
ks=list(logs)
if len(ks)>1:
    a,b=logs[ks[0]],logs[ks[1]]
    for i,(x,y) in enumerate(zip(a,b)):
        if x!=y:
            print('\n'.join(a[max(0,i-12):i+6])); print('-----'); print('\n'.join(b[max(0,i-3):i+6])); break
