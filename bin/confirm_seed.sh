#!/bin/bash
# usage: confirm_seed.sh <worktree> <module(core|server)> <pkg path rel to module> <demo -run regexp> [extra go test flags]
# Confirms: builds; demo FAILS with patch; demo PASSES without; existing pkg tests same pass set.
wt=$1; mod=$2; pkg=$3; run=$4; shift 4
export GOFLAGS=-mod=mod GOPROXY=off GOSUMDB=off
cd $wt || exit 2
[ -f patch.diff ] || { echo "no patch.diff"; exit 2; }
git apply -R --check patch.diff 2>/dev/null || { echo "patch not applied in worktree? trying to apply"; git apply patch.diff || exit 2; }
(cd core && go build ./... ) && (cd server && go build ./...) || { echo "BUILD FAIL"; exit 1; }
echo "== demo WITH patch (expect FAIL)"
(cd $mod && go test -vet=off -count=1 "$@" ./$pkg/ -run "$run" 2>&1 | tail -4)
git apply -R patch.diff
echo "== demo WITHOUT patch (expect PASS)"
(cd $mod && go test -vet=off -count=1 "$@" ./$pkg/ -run "$run" 2>&1 | tail -3)
git apply patch.diff
