#!/bin/bash
# usage: adopt_seed.sh <ID> <wave> "<caught_by text>"  -- copies the deliverables of /tmp/seed-<ID>-<wave> into /verif/seeded/<ID>-<n>/
# (n = next free number), writes meta.json from notes.md, removes the scratch worktree.
id=$1; wave=$2; caught=$3
wt=/tmp/seed-$id-$wave
n=1; while [ -d /verif/seeded/$id-$n ]; do n=$((n+1)); done
d=/verif/seeded/$id-$n
mkdir -p $d
cp $wt/_seeded/patch.diff $wt/_seeded/zz_seeded_demo_test.go $wt/_seeded/notes.md $d/ || exit 2
python3 - "$id" "$d" "$caught" <<'P'
import json, re, sys
id, d, caught = sys.argv[1:4]
t = open(d + "/notes.md").read()
secs = re.split(r"\n(?=#+ *\(?[a-dA-D][\).])|\n(?=\(?[a-d]\) )", t)
def sec(letter):
    for s in secs:
        if re.match(r"#* *\(?%s[\).]" % letter, s.strip(), re.I):
            body = "\n".join(l for l in s.strip().splitlines()[1:] if l.strip()) or s
            return " ".join(body.split())[:600]
    return ""
summary = sec("a") or " ".join(t.split())[:600]
needs = sec("b")
json.dump({"property": id, "summary": summary, "needs": needs,
           "demo": "zz_seeded_demo_test.go (go test -vet=off -run TestSeededDemo in the touched package, see notes.md)",
           "confirmed": "demo fails with patch / passes without, run by the main session in the agent's scratch worktree (removed afterwards)",
           "caught_by": caught}, open(d + "/meta.json", "w"), indent=1)
print(d, "|", summary[:160], "|", needs[:160])
P
git -C /repo worktree remove --force $wt && echo "worktree removed"
