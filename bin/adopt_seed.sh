#!/bin/bash
# usage: adopt_seed.sh <ID-n> <worktree>   -- copies the agent's deliverables into /verif/seeded/<ID-n>/ and shows notes
id=$1; wt=$2
mkdir -p /verif/seeded/$id
cp $wt/_seeded/patch.diff /verif/seeded/$id/patch.diff
cp $wt/_seeded/zz_seeded_demo_test.go /verif/seeded/$id/
cp $wt/_seeded/notes.md /verif/seeded/$id/notes.md
head -3 /verif/seeded/$id/zz_seeded_demo_test.go
wc -l /verif/seeded/$id/patch.diff
